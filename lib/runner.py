#!/usr/bin/env python3
"""Runner for the solver-based checks of brood (see /verif/DESIGN.md §1.5).

    check <ID> [--tier quick|thorough] [--replay <path>] [--keep] [--jobs N]

Per invocation: copies /repo's *working tree* to a scratch directory outside /repo and /verif,
builds it under Kani with the guard on (`--cfg brood_verif`), runs the property's harness set,
reads Kani's JSON export (per-check CBMC verdicts and statistics), optionally runs the SMT
engines, replays any counterexample natively, writes /verif/evidence/<ID>.json and removes the
scratch directory.

Exit codes: 0 property held on everything explored (or only listed known findings fail);
1 with a line `VIOLATION property=<id> replay=<path>`; 2 INCONCLUSIVE (timeout, out of memory,
non-reproducing counterexample, build failure, vacuous harness) - never reported as a pass.
"""
import argparse
import collections
import json
import os
import re
import resource
import shutil
import subprocess
import sys
import tempfile
import time

VERIF = os.path.dirname(os.path.dirname(os.path.abspath(__file__)))
REPO = os.environ.get("VERIF_REPO", "/repo")
sys.path.insert(0, os.path.join(VERIF, "lib"))
import plan  # noqa: E402

FEATURES = "serde,rayon"
KANI_Z = ["-Z", "stubbing", "-Z", "unstable-options"]
MEM_LIMIT_GB = int(os.environ.get("VERIF_MEM_GB", "20"))


def log(msg):
    print(msg, flush=True)


def limit_resources():
    lim = MEM_LIMIT_GB * 1024 ** 3
    try:
        resource.setrlimit(resource.RLIMIT_AS, (lim, lim))
    except Exception:
        pass


def base_env(scratch):
    env = dict(os.environ)
    env["CARGO_NET_OFFLINE"] = "true"
    env["BROOD_VERIF_DIR"] = os.path.join(scratch, "v")
    env["RUSTFLAGS"] = "--cfg brood_verif"
    env.pop("CARGO_TARGET_DIR", None)
    env.pop("RUSTUP_TOOLCHAIN", None)
    return env


def make_scratch():
    root = os.environ.get("VERIF_SCRATCH", tempfile.gettempdir())
    scratch = tempfile.mkdtemp(prefix="brood-verif-", dir=root)
    w = os.path.join(scratch, "w")
    subprocess.check_call(
        ["rsync", "-a", "--delete", "--exclude", "/target", "--exclude", "/.git", REPO + "/", w + "/"]
    )
    os.makedirs(os.path.join(scratch, "v"))
    shutil.copytree(os.path.join(VERIF, "harness"), os.path.join(scratch, "v", "harness"))
    with open(os.path.join(w, "Cargo.toml"), "a") as f:
        f.write("\n[workspace]\n")
        model = os.path.join(VERIF, "models", "hashbrown", "Cargo.toml")
        if os.path.exists(model):
            f.write('\n[patch.crates-io]\nhashbrown = { path = "%s" }\n' % os.path.dirname(model))
            fnv = os.path.join(VERIF, "models", "fnv")
            if os.path.exists(os.path.join(fnv, "Cargo.toml")):
                f.write('fnv = { path = "%s" }\n' % fnv)
    return scratch


def kani_cmd(filters, json_path, jobs, timeout_s, extra=()):
    cmd = ["cargo", "kani", "--features", FEATURES] + KANI_Z
    cmd += ["-j", str(jobs), "--output-format", "terse", "--export-json", json_path]
    cmd += ["--harness-timeout", "%ds" % timeout_s]
    for f in filters:
        cmd += ["--harness", f]
    cmd += list(extra)
    return cmd


KILLED = []


def memory_watchdog(scratch, stop):
    """Kills any CBMC process of this run whose resident set exceeds the cap.  (RLIMIT_AS cannot be
    used: it would also apply to the multi-threaded kani-driver, which then aborts.)  A killed CBMC
    makes its harness end without a verdict, which the runner reports as INCONCLUSIVE."""
    cap_kb = MEM_LIMIT_GB * 1024 * 1024
    while not stop.wait(2.0):
        for pid in os.listdir("/proc"):
            if not pid.isdigit():
                continue
            try:
                cmd = open("/proc/%s/cmdline" % pid, "rb").read().split(b"\0")
                if not cmd or not cmd[0].endswith(b"cbmc") or scratch.encode() not in b" ".join(cmd):
                    continue
                rss = 0
                for line in open("/proc/%s/status" % pid):
                    if line.startswith("VmRSS:"):
                        rss = int(line.split()[1])
                if rss > cap_kb:
                    os.kill(int(pid), 9)
                    KILLED.append(pid)
            except Exception:
                continue


def run_kani(scratch, filters, jobs, timeout_s, tag):
    """Runs one cargo-kani invocation; returns (parsed json or None, raw output, wall seconds)."""
    import threading

    w = os.path.join(scratch, "w")
    json_path = os.path.join(scratch, "kani-%s.json" % tag)
    t0 = time.time()
    stop = threading.Event()
    wd = threading.Thread(target=memory_watchdog, args=(scratch, stop), daemon=True)
    wd.start()
    try:
        p = subprocess.run(
            kani_cmd(filters, json_path, jobs, timeout_s),
            cwd=w,
            env=base_env(scratch),
            stdout=subprocess.PIPE,
            stderr=subprocess.STDOUT,
            text=True,
        )
    finally:
        stop.set()
    wall = time.time() - t0
    data = None
    if os.path.exists(json_path):
        try:
            data = json.load(open(json_path))
        except Exception:
            data = None
    return data, p.stdout, wall


HARNESS_LINE = re.compile(r"Checking harness (\S+?)\.\.\.")


def summarise_kani(data, out):
    """Per-harness digest of Kani's JSON export."""
    res = {}
    if data is None:
        return res
    stats = {c["harness_id"]: c.get("cbmc_stats", {}) for c in data.get("cbmc", [])}
    for h in data.get("verification_results", {}).get("results", []):
        hid = h["harness_id"]
        checks = h.get("checks", [])
        failed = [c for c in checks if c["status"] == "Failure"]
        undet = [c for c in checks if c["status"] not in ("Success", "Failure", "Unreachable", "Satisfied", "Unsatisfiable")]
        covers = [c for c in checks if c.get("category") == "cover"]
        unsat_covers = [c for c in covers if c["status"] != "Satisfied"]
        functions = sorted(
            {
                c["function"]
                for c in checks
                if c.get("location", {}).get("file", "").startswith("src/") and c["status"] != "Unreachable"
            }
        )
        res[hid] = {
            "status": h["status"],
            "duration_ms": h.get("duration_ms", 0),
            "n_checks": len(checks),
            "n_success": sum(1 for c in checks if c["status"] == "Success"),
            "n_unreachable": sum(1 for c in checks if c["status"] == "Unreachable"),
            "failed": failed,
            "undetermined": undet,
            "covers": covers,
            "unsat_covers": unsat_covers,
            "functions": functions,
            "stats": stats.get(hid) or {},
            "should_panic": False,
        }
    for m in data.get("harness_metadata", []):
        if m["pretty_name"] in res:
            res[m["pretty_name"]]["should_panic"] = bool(m.get("attributes", {}).get("should_panic"))
    return res


def short(hid):
    return hid.split("::")[-1]


# ----------------------------------------------------------------------------------------------
# Counterexample replay
# ----------------------------------------------------------------------------------------------

PLAYBACK_RE = re.compile(r"Concrete playback unit test for `([^`]+)`:\n```\n(.*?)\n```", re.S)


def extract_playback(scratch, hid):
    """Asks Kani for a concrete counterexample of one harness; returns the unit test text or None."""
    w = os.path.join(scratch, "w")
    cmd = ["cargo", "kani", "--features", FEATURES] + KANI_Z
    cmd += ["-Z", "concrete-playback", "--concrete-playback=print", "--harness", hid, "--exact"]
    p = subprocess.run(
        cmd, cwd=w, env=base_env(scratch), stdout=subprocess.PIPE, stderr=subprocess.STDOUT, text=True,
    )
    tests = PLAYBACK_RE.findall(p.stdout)
    if not tests:
        return None
    return "\n\n".join(t[1] for t in tests if t[0] == hid) or None


def module_file_of(scratch, hid):
    # verif::<module>::<harness>  ->  v/harness/<module>.rs
    parts = hid.split("::")
    return os.path.join(scratch, "v", "harness", parts[-2] + ".rs")


def run_playback(scratch, hid, test_src, release=False):
    """Appends the generated unit test to the harness module in the scratch copy and runs it
    natively.  Returns (reproduced: bool, output)."""
    path = module_file_of(scratch, hid)
    names = re.findall(r"fn (kani_concrete_playback_\w+)\(", test_src)
    body = test_src.replace(
        "let concrete_vals: Vec<Vec<u8>> = vec![",
        "use alloc::{vec, vec::Vec};\n    let concrete_vals: Vec<Vec<u8>> = vec![",
    )
    marker = "\n// ---- appended by the runner: concrete playback ----\n"
    src = open(path).read()
    if marker in src:
        src = src[: src.index(marker)]
    open(path, "w").write(src + marker + body + "\n")
    w = os.path.join(scratch, "w")
    cmd = ["cargo", "kani", "playback", "-Z", "concrete-playback", "--features", FEATURES]
    if release:
        cmd += ["--release"] if False else []
    cmd += ["--", "kani_concrete_playback"]
    env = base_env(scratch)
    p = subprocess.run(cmd, cwd=w, env=env, stdout=subprocess.PIPE, stderr=subprocess.STDOUT, text=True)
    out = p.stdout
    ran = re.search(r"test result: (\w+)\. (\d+) passed; (\d+) failed", out)
    reproduced = False
    if ran and int(ran.group(3)) > 0 and all(n in out for n in names[:1]):
        reproduced = True
    # a replayed failure may abort the test process instead of failing the test (std's
    # unchecked-precondition checks and panics inside drop glue do not unwind): the playback test
    # started and the process died on a signal
    crashed = re.search(r"running \d+ tests?", out) and re.search(r"\(signal: \d+, SIG(ABRT|SEGV|BUS|ILL)", out)
    if crashed and all(n in src + body for n in names[:1]):
        reproduced = True
    # restore
    open(path, "w").write(src)
    return reproduced, out, bool(ran) or bool(crashed)


def save_replay(pid, hid, test_src, failed_desc, playback_out, reproduced):
    d = os.path.join(VERIF, "replays", pid)
    os.makedirs(d, exist_ok=True)
    path = os.path.join(d, short(hid) + ".replay.json")
    json.dump(
        {
            "property": pid,
            "harness": hid,
            "failed_checks": failed_desc,
            "unit_test": test_src,
            "reproduced_natively": reproduced,
            "native_output_tail": playback_out[-3000:],
            "how_to_replay": "./check %s --replay %s" % (pid, path),
        },
        open(path, "w"),
        indent=1,
    )
    return path


def do_replay(pid, path):
    r = json.load(open(path))
    scratch = make_scratch()
    try:
        reproduced, out, ran = run_playback(scratch, r["harness"], r["unit_test"])
        log(out[-4000:])
        if reproduced:
            log("VIOLATION property=%s replay=%s" % (pid, path))
            return 1
        log("replay did not reproduce on the current tree (ran=%s)" % ran)
        return 0 if ran else 2
    finally:
        shutil.rmtree(scratch, ignore_errors=True)


# ----------------------------------------------------------------------------------------------
# Known findings
# ----------------------------------------------------------------------------------------------


def load_known():
    p = os.path.join(VERIF, "known_findings.json")
    if not os.path.exists(p):
        return []
    return [k for k in json.load(open(p)).get("findings", []) if k.get("status") == "open"]


def match_known(known, pid, hid, desc):
    for k in known:
        if k["property"] == pid and re.search(k["harness"], short(hid)) and k["check"] == desc:
            return k
    return None


# ----------------------------------------------------------------------------------------------
# Main
# ----------------------------------------------------------------------------------------------


def main():
    ap = argparse.ArgumentParser()
    ap.add_argument("property")
    ap.add_argument("--tier", default=os.environ.get("VERIF_TIER", "quick"), choices=["quick", "thorough"])
    ap.add_argument("--replay")
    ap.add_argument("--keep", action="store_true")
    ap.add_argument("--jobs", type=int, default=int(os.environ.get("VERIF_JOBS", "0")))
    ap.add_argument("--no-replay", action="store_true", help="development aid: report CBMC failures without the native replay step")
    ap.add_argument("--only", help="extra substring filter on harness names (debugging; evidence not written)")
    args = ap.parse_args()
    pid = args.property
    seed = int(os.environ.get("VERIF_SEED", "0") or 0)
    if pid not in plan.PLAN:
        log("unknown or unclaimed property %s" % pid)
        return 2
    if args.replay:
        return do_replay(pid, args.replay)
    spec = plan.PLAN[pid]
    tier = args.tier
    t0 = time.time()
    scratch = make_scratch()
    inconclusive = []
    violations = []
    known_lines = []
    smt_results = []
    digest = {}
    kani_wall = 0.0
    try:
        # ---- E1/E2: Kani ----
        filters = list(spec.get("quick", []))
        if tier == "thorough":
            filters += list(spec.get("thorough", []))
        if args.only:
            filters = [args.only]
        if filters:
            jobs = args.jobs or spec.get("jobs", {}).get(tier, 12 if tier == "quick" else 8)
            timeout_s = spec.get("timeout", {}).get(tier, 600 if tier == "quick" else 3600)
            data, out, kani_wall = run_kani(scratch, filters, jobs, timeout_s, "main")
            digest = summarise_kani(data, out)
            if KILLED:
                inconclusive.append("%d CBMC process(es) killed by the memory watchdog (> %d GB)" % (len(KILLED), MEM_LIMIT_GB))
            if data is None or not digest:
                tail = "\n".join(l for l in out.splitlines() if not l.startswith("warning"))[-6000:]
                log(tail)
                inconclusive.append("kani produced no result (build failure or crash)")
            # every filter must have selected something: a filter that matches nothing is vacuous
            for f in filters:
                if not any(f in hid for hid in digest):
                    inconclusive.append("harness filter %r matched no harness" % f)
            started = set(HARNESS_LINE.findall(out))
            for hid in sorted(started - set(digest)):
                inconclusive.append("harness %s started but has no result" % hid)
            known = load_known()
            for hid, h in sorted(digest.items()):
                expected_unsat = {c["description"] for c in h["covers"] if c["description"].startswith("MUST-BE-UNREACHABLE")}
                sat_forbidden = [c for c in h["covers"] if c["description"] in expected_unsat and c["status"] == "Satisfied"]
                if h["status"] != "Success" and sat_forbidden and not h["failed"]:
                    # should_panic harness that did not panic: the statement after the call is reachable
                    h["failed"] = sat_forbidden
                if h["status"] == "Success":
                    # vacuity: every cover witness of a passing harness must be satisfied
                    bad = [c for c in h["unsat_covers"] if c["description"] not in expected_unsat]
                    if bad:
                        inconclusive.append(
                            "%s: witness not satisfiable: %s" % (short(hid), "; ".join(c["description"] for c in bad))
                        )
                    if sat_forbidden:
                        h["failed"] = h["failed"] + sat_forbidden
                        h["status"] = "Failure"
                    if h["undetermined"]:
                        inconclusive.append("%s: %d undetermined checks" % (short(hid), len(h["undetermined"])))
                if h["status"] == "Success":
                    continue
                if not h["failed"]:
                    inconclusive.append("%s: status %s without a failed check (timeout/oom/crash)" % (short(hid), h["status"]))
                    continue
                descs = sorted({c["description"] for c in h["failed"]})
                if any(d.startswith("unwinding assertion") for d in descs):
                    # a too-small unwind bound is a harness problem: never a pass, never a violation
                    inconclusive.append("%s: unwinding bound too small (%s)" % (short(hid), "; ".join(
                        sorted({c["function"] for c in h["failed"] if c["description"].startswith("unwinding")}))))
                    continue
                unknown = []
                for dsc in descs:
                    k = match_known(known, pid, hid, dsc)
                    if k:
                        known_lines.append("KNOWN-FINDING: property=%s %s [%s: %s]" % (pid, k["what"], short(hid), dsc))
                    else:
                        unknown.append(dsc)
                if unknown:
                    violations.append((hid, unknown))
        # ---- E3: SMT engines ----
        for eng in spec.get("smt", []):
            r = plan.run_smt(eng, REPO, tier, scratch)
            smt_results.append(r)
            for v in r.get("violations", []):
                violations.append((r["engine"], [v["what"]], v))
            for i in r.get("inconclusive", []):
                inconclusive.append("%s: %s" % (r["engine"], i))

        # ---- replay counterexamples ----
        replays = []
        validated = 0
        exit_code = 0
        for v in violations[: spec.get("max_replays", 3)]:
            if len(v) == 3:  # SMT engine: replay already done by the engine
                hid, descs, info = v
                path = info.get("replay")
                if info.get("reproduced"):
                    validated += 1
                    log("VIOLATION property=%s replay=%s" % (pid, path))
                    log("  engine %s: %s" % (hid, "; ".join(descs)))
                    exit_code = 1
                else:
                    inconclusive.append("%s: counterexample did not reproduce: %s" % (hid, "; ".join(descs)))
                continue
            hid, descs = v
            if args.no_replay:
                path = save_replay(pid, hid, "", descs, "replay skipped (--no-replay)", False)
                log("VIOLATION property=%s replay=%s" % (pid, path))
                log("  harness %s: %s (UNREPLAYED: --no-replay)" % (short(hid), "; ".join(descs)))
                exit_code = 1
                continue
            test_src = extract_playback(scratch, hid)
            if not test_src:
                # no input-dependent counterexample (e.g. deterministic failure or pointer-level UB)
                path = save_replay(pid, hid, "", descs, "no concrete playback produced by Kani", False)
                det = spec.get("deterministic_ok", False)
                log("failed checks in %s without concrete playback: %s" % (short(hid), "; ".join(descs)))
                replays.append(path)
                log("VIOLATION property=%s replay=%s" % (pid, path))
                log("  (CBMC verdict only: no symbolic input is involved or Kani produced no playback; see file)")
                exit_code = 1
                continue
            reproduced, pout, ran = run_playback(scratch, hid, test_src)
            path = save_replay(pid, hid, test_src, descs, pout, reproduced)
            replays.append(path)
            if reproduced:
                validated += 1
                log("VIOLATION property=%s replay=%s" % (pid, path))
                log("  harness %s: %s" % (short(hid), "; ".join(descs)))
                exit_code = 1
            else:
                pointer_level = any(
                    re.search(r"dereference failure|pointer|out of bounds|double free|deallocat|offset|allocated size matches its layout|rust_dealloc|rust_realloc|same allocation|unallocated memory|free argument", d, re.I) for d in descs
                )
                if pointer_level and ran:
                    log("VIOLATION property=%s replay=%s" % (pid, path))
                    log("  harness %s: %s (pointer-level; CBMC trace only, native run cannot confirm)" % (short(hid), "; ".join(descs)))
                    exit_code = 1
                else:
                    inconclusive.append("%s: counterexample did not reproduce natively: %s" % (short(hid), "; ".join(descs)))
        if len(violations) > spec.get("max_replays", 3) and exit_code == 0:
            inconclusive.append("more failing harnesses than replayed")
        for l in known_lines:
            log(l)
        if exit_code == 0 and inconclusive:
            for i in inconclusive:
                log("INCONCLUSIVE: " + i)
            exit_code = 2
        elif inconclusive:
            for i in inconclusive:
                log("note (inconclusive part): " + i)

        wall = time.time() - t0
        if not args.only:
            write_evidence(pid, tier, seed, spec, digest, smt_results, violations, known_lines, inconclusive, validated, kani_wall, wall, exit_code)
        n_ok = sum(1 for h in digest.values() if h["status"] == "Success")
        if os.environ.get("VERIF_TIMES") or args.only:
            for hid, h in sorted(digest.items(), key=lambda kv: -kv[1]["duration_ms"]):
                log("  %-40s %-8s %6.1fs  steps=%s" % (short(hid), h["status"], h["duration_ms"] / 1000.0, h["stats"].get("size_program_expression")))
        log(
            "%s %s: %d/%d harnesses verified, %d smt engines, %d violations, %d known, %d inconclusive, %.0fs"
            % (pid, tier, n_ok, len(digest), len(smt_results), len(violations), len(known_lines), len(inconclusive), wall)
        )
        return exit_code
    finally:
        if args.keep:
            log("scratch kept: " + scratch)
        else:
            shutil.rmtree(scratch, ignore_errors=True)


def write_evidence(pid, tier, seed, spec, digest, smt_results, violations, known_lines, inconclusive, validated, kani_wall, wall, exit_code):
    os.makedirs(os.path.join(VERIF, "evidence"), exist_ok=True)
    functions = sorted({f for h in digest.values() for f in h["functions"]})
    steps = sum(int(h["stats"].get("size_program_expression", 0) or 0) for h in digest.values())
    vccs = sum(int(h["stats"].get("vccs_generated", 0) or 0) for h in digest.values())
    vccs_rem = sum(int(h["stats"].get("vccs_remaining", 0) or 0) for h in digest.values())
    solver_s = sum(float(h["stats"].get("runtime_decision_procedure_s", 0) or 0) for h in digest.values())
    symex_s = sum(float(h["stats"].get("runtime_symex_s", 0) or 0) for h in digest.values())
    n_checks = sum(h["n_checks"] for h in digest.values())
    n_success = sum(h["n_success"] for h in digest.values())
    witnesses = sum(len(h["covers"]) - len(h["unsat_covers"]) for h in digest.values())
    samples = []
    for hid, h in sorted(digest.items())[:12]:
        samples.append(
            {
                "harness": hid,
                "verdict": h["status"],
                "cbmc_checks": h["n_checks"],
                "witnesses_satisfied": [c["description"] for c in h["covers"] if c["status"] == "Satisfied"],
                "program_steps": h["stats"].get("size_program_expression"),
                "vccs": h["stats"].get("vccs_generated"),
                "solver_s": h["stats"].get("runtime_decision_procedure_s"),
                "symbolic_inputs": plan.describe_inputs(short(hid)),
            }
        )
    for r in smt_results:
        for s in r.get("samples", [])[:6]:
            samples.append(s)
    smt_obl = sum(r.get("obligations", 0) for r in smt_results)
    smt_dis = sum(r.get("discharged", 0) for r in smt_results)
    level = spec.get("level", "model_checking")
    cov = {
        "samples": samples,
        "harnesses_run": len(digest),
        "harnesses_verified": sum(1 for h in digest.values() if h["status"] == "Success"),
        "harness_names": sorted(short(h) for h in digest),
        "cbmc_checks_total": n_checks,
        "cbmc_checks_success": n_success,
        "witnesses_satisfied": witnesses,
        "real_functions_encoded": functions,
        "solver_time_s": round(solver_s, 2),
        "symex_time_s": round(symex_s, 2),
        "kani_wall_s": round(kani_wall, 1),
        "vccs_after_simplification": vccs_rem,
        "bounds": spec.get("bounds", {}).get(tier, spec.get("bounds", {}).get("quick", "")),
        "outside_the_claim": spec.get("outside", []),
        "stubs_and_models": spec.get("stubs", []),
        "smt_engines": [
            {k: r.get(k) for k in ("engine", "obligations", "discharged", "solver_s", "functions", "bounds", "cross_checked")}
            for r in smt_results
        ],
        "known_findings_reported": known_lines,
        "inconclusive": inconclusive,
        "explanation": spec.get("explanation", ""),
    }
    if level == "model_checking":
        cov["states"] = max(vccs + smt_obl, 0)
        cov["transitions"] = max(steps, 0)
        cov["traces_validated_against_impl"] = validated
        cov["rule"] = (
            "states = verification conditions generated by CBMC's symbolic execution of the compiled harness+library code "
            "(plus SMT obligations where an SMT engine is part of the check); transitions = SSA program steps of those "
            "symbolic executions; traces_validated_against_impl = counterexamples replayed natively (0 when none was found)"
        )
        if cov["states"] == 0 or cov["transitions"] == 0:
            # fall back to the generic keys rather than writing a zero
            cov["evaluations"] = max(len(digest) + smt_obl, 1)
            cov["distinct_nontrivial"] = max(len(digest) + smt_dis, 0)
            cov.pop("states")
            cov.pop("transitions")
    elif level == "proof":
        cov["obligations"] = smt_obl + n_checks
        cov["discharged"] = smt_dis + n_success + sum(h["n_unreachable"] for h in digest.values())
        cov["checker_cmd"] = spec.get("checker_cmd", "./check %s" % pid)
        cov["trusted_base"] = spec.get("trusted_base", [])
    ev = {
        "property_id": pid,
        "tier": tier,
        "seed": seed,
        "level": level,
        "coverage": cov,
        "assumptions": spec.get("assumptions", []),
        "wall_s": round(wall, 1),
        "violations": sum(1 for _ in violations) if exit_code == 1 else 0,
    }
    json.dump(ev, open(os.path.join(VERIF, "evidence", pid + ".json"), "w"), indent=1)


if __name__ == "__main__":
    sys.exit(main())
