#!/usr/bin/env python3
"""Regenerates /verif/MANIFEST.json from lib/plan.py (single source of truth)."""
import json, os, sys
VERIF = os.path.dirname(os.path.dirname(os.path.abspath(__file__)))
sys.path.insert(0, os.path.join(VERIF, "lib"))
import plan

checks = []
for pid in sorted(plan.PLAN):
    s = plan.PLAN[pid]
    checks.append({
        "property_id": pid,
        "quick_cmd": "./check %s --tier quick" % pid,
        "thorough_cmd": "./check %s --tier thorough" % pid,
        "evidence_file": "/verif/evidence/%s.json" % pid,
        "replay_cmd_template": "./check %s --replay {path}" % pid,
        "engine": s.get("engine", "kani"),
        "level_claimed": {
            "category": s.get("level", "model_checking"),
            "text": s["level_text"],
            "design_ref": s.get("design_ref", "DESIGN.md §3 %s" % pid),
        },
        "level_note": s["level_note"],
        "technique": s.get("technique", "bounded model checking of the compiled Rust code (Kani/CBMC, SAT verdict over symbolic inputs)"),
    })
m = {
    "version": 1,
    "setup_cmd": "true",
    "hooks": {
        "guard": "--cfg brood_verif",
        "enable": "RUSTFLAGS='--cfg brood_verif' BROOD_VERIF_DIR=<copy of /verif> cargo kani --features serde,rayon (done by ./check on a scratch copy of /repo's working tree)",
        "baseline_off_cmd": "cd /repo && cargo nextest run --workspace --no-fail-fast --offline || cargo test --workspace --no-fail-fast --offline",
        "source_commits": plan.HOOK_COMMITS,
        "add_only": True,
    },
    "engines": plan.ENGINES,
    "checks": checks,
    "notes": plan.NOTES,
    "not_applicable": plan.NOT_APPLICABLE,
}
json.dump(m, open(os.path.join(VERIF, "MANIFEST.json"), "w"), indent=1)
print("wrote MANIFEST.json with %d checks, %d not applicable" % (len(checks), len(plan.NOT_APPLICABLE)))
