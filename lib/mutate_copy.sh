#!/bin/bash
# usage: mutate_copy.sh <patch.diff> <property> [extra check args...]
# Applies a seeded change to a *copy* of /repo and points the runner at it (VERIF_REPO), so /repo is
# never touched and other checks can run at the same time.  Use with --only (no evidence is written).
PATCH=$(readlink -f "$1"); shift
C=$(mktemp -d /tmp/mrepo-XXXX); trap 'rm -rf "$C"' EXIT
rsync -a --exclude /target --exclude /.git /repo/ "$C/"
(cd "$C" && patch -p1 -s < "$PATCH") || { echo "patch does not apply"; exit 9; }
cd /verif && VERIF_REPO="$C" ./check "$@"
echo "exit=$?"
