#!/bin/bash
# usage: run_all.sh quick|thorough  -- runs every registered check in sequence, prints one line each.
TIER=${1:-quick}
cd /verif
for id in $(python3 -c "import json; print(' '.join(c['property_id'] for c in json.load(open('MANIFEST.json'))['checks']))"); do
  s=$(date +%s)
  out=$(./check $id --tier $TIER 2>&1); rc=$?
  echo "$id rc=$rc $(( $(date +%s) - s ))s :: $(echo "$out" | grep -v '^warning' | tail -1)"
  echo "$out" | grep -E "VIOLATION|INCONCLUSIVE|KNOWN-FINDING" | head -5
done
