#!/bin/bash
# Validates the E2 models (hashbrown, fnv) by running brood's own test suite against them.
set -e
S=$(mktemp -d /tmp/brood-models-XXXX); trap 'rm -rf "$S"' EXIT
rsync -a --exclude /target --exclude /.git /repo/ "$S/w/"
printf '\n[workspace]\n\n[patch.crates-io]\nhashbrown = { path = "/verif/models/hashbrown" }\nfnv = { path = "/verif/models/fnv" }\n' >> "$S/w/Cargo.toml"
cd "$S/w" && CARGO_NET_OFFLINE=true cargo test --offline --features serde,rayon 2>&1 | grep -E "^test result|FAILED|panicked"
