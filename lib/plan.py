"""Property -> harness sets, bounds and claim text (single source of truth for the runner and
MANIFEST.json).  Harness naming convention: <group>_<q|t>_<shape>; `q` harnesses run in both
tiers, `t` only in the thorough tier."""

HOOK_COMMITS = ["70c9beb"]

ENGINES = [
    {
        "name": "E1 kani",
        "path": "/verif/harness",
        "serves_properties": [],
        "kind_free_text": "Kani 0.68 proof harnesses compiled inside the crate (include hook), CBMC 6.11 + CaDiCaL decide every assertion and memory-safety check over symbolic inputs within the stated shapes",
    },
]

NOTES = (
    "All checks are solver-decided over the real code, rebuilt from /repo's working tree on every run (rsync to a scratch "
    "directory, removed afterwards). Exit 2 = INCONCLUSIVE (never a pass). See DESIGN.md."
)

KANI_NOTE = (
    "Trusted: rustc/Kani's MIR->GOTO translation, CBMC, CaDiCaL, Kani's models of the allocator and of std intrinsics; "
    "the representation invariants used as symbolic pre-states are argued reachable in DESIGN.md §2. Holds within the stated "
    "shapes only (bounded); unwinding assertions are on, so a too-small unwind is an error, not a pass."
)

NOT_APPLICABLE = [
    {
        "property_id": "C14",
        "reason": "The verdict is rustc's accept/reject of a program (trait resolution, borrow check, auto traits); a rejected program has no MIR/GOTO to execute symbolically, so solver-based checking of the real code has nothing to encode.",
    },
    {
        "property_id": "C17",
        "reason": "Kani/CBMC give panic abort semantics (no unwinding edges, no drops during unwinding); the post-panic states the property speaks about do not exist in the model, and a MIR-level encoder would need a heap model of Vec internals that is out of reach.",
    },
]

PLAN = {}

PLAN["C13"] = {
    "level": "model_checking",
    "quick": ["allocb_q_", "alloc1_q_", "allocf_q_", "allocm_q_", "rm_q_"],
    "thorough": ["allocb_t_", "alloc1_t_", "allocf_t_", "allocm_t_", "rm_t_"],
    "bounds": {"quick": "slots<=3, free<=2, batch<=2", "thorough": "slots<=4, free<=4, batch<=3"},
    "outside": ["generation counter wrap at 2^64"],
    "stubs": [],
    "assumptions": [],
    "explanation": "one-step induction over the representation invariants AllocInv/LinkInv/TableInv",
    "level_text": "Bounded model checking of the compiled allocator/archetype/table code: from every pre-state of a small concrete shape satisfying the representation invariants, one real operation with symbolic arguments re-establishes the invariants (one-step induction covers histories of any length within the shapes).",
    "level_note": KANI_NOTE,
}

_claimed = set(PLAN)
for _p in ["C01", "C02", "C03", "C04", "C05", "C06", "C07", "C08", "C09", "C10", "C11", "C12", "C15", "C16", "C18"]:
    if _p not in _claimed:
        NOT_APPLICABLE.append({"property_id": _p, "reason": "not claimed yet: the harnesses for this property are still under construction (see DESIGN.md build order)"})
NOT_APPLICABLE.sort(key=lambda x: x["property_id"])
for e in ENGINES:
    if e["name"].startswith("E1"):
        e["serves_properties"] = sorted(p for p in PLAN)


def describe_inputs(harness):
    return ""


def run_smt(engine, repo, tier, scratch):
    raise NotImplementedError(engine)
