"""Property -> harness sets, bounds and claim text (single source of truth for the runner and
MANIFEST.json).  Harness naming convention: <group>_<q|t>_<shape>; `q` harnesses run in both
tiers, `t` only in the thorough tier."""

HOOK_COMMITS = ["70c9beb", "09616d7", "eb29aed"]

ENGINES = [
    {
        "name": "E3a tables",
        "path": "/verif/smt/tables.py",
        "serves_properties": ["C08", "C12"],
        "kind_free_text": "the schedule's static conflict tables (trait impls) re-extracted from the source and checked against the reference conflict relation with z3, cross-checked with cvc5",
    },
    {
        "name": "E3b bitwalk",
        "path": "/verif/smt/bitwalk.py",
        "serves_properties": ["C03", "C05"],
        "kind_free_text": "nightly MIR of the identifier bit walkers translated to bit-vector SMT with a symbolic registry length; one-step inductive obligations decided by z3, cross-checked with cvc5; counterexamples re-solved for a small length and replayed by a Kani harness",
    },
    {
        "name": "E3c glue",
        "path": "/verif/smt/glue.py",
        "serves_properties": ["C13", "C01"],
        "kind_free_text": "assume-guarantee check of the World-level glue over nightly MIR: callees replaced by contracts established by the Kani harness groups, ghost counters rows/active/len, obligations decided by z3 and cvc5; counterexamples replayed by native public-API scenarios",
    },
    {
        "name": "E3d entrybits",
        "path": "/verif/smt/entrybits.py",
        "serves_properties": ["C01", "C13"],
        "kind_free_text": "nightly MIR of Entry::add / Entry::remove executed symbolically (bit-vector SMT, symbolic registry length and component position, all other callees abstracted): the identifier of the destination table is the source identifier with exactly the component's bit set / cleared; z3 decides, cvc5 cross-checks; counterexamples replayed by an exhaustive native public-API scenario for registry lengths 1,2,3,4,8,9",
    },
    {
        "name": "E2 models",
        "path": "/verif/models",
        "serves_properties": [],
        "kind_free_text": "functional models of hashbrown (fixed-capacity linear search) and fnv (constant hasher) patched into the scratch workspace; validated by running brood's own 418 unit tests and 77 doc tests against them (lib/validate_models.sh)",
    },
    {
        "name": "E1 kani",
        "path": "/verif/harness",
        "serves_properties": [],
        "kind_free_text": "Kani 0.68 proof harnesses compiled inside the crate (include hook), CBMC 6.11 + CaDiCaL decide every assertion and memory-safety check over symbolic inputs within the stated shapes",
    },
]

NOTES = (
    "All checks are solver-decided over the real code, rebuilt from /repo's working tree on every run (rsync to a scratch "
    "directory, removed afterwards). Exit 2 = INCONCLUSIVE (never a pass). See DESIGN.md."
)

KANI_NOTE = (
    "Trusted: rustc/Kani's MIR->GOTO translation, CBMC, CaDiCaL, Kani's models of the allocator and of std intrinsics; "
    "the representation invariants used as symbolic pre-states are argued reachable in DESIGN.md §2. Holds within the stated "
    "shapes only (bounded); unwinding assertions are on, so a too-small unwind is an error, not a pass."
)

NOT_APPLICABLE = [
    {
        "property_id": "C14",
        "reason": "The verdict is rustc's accept/reject of a program (trait resolution, borrow check, auto traits); a rejected program has no MIR/GOTO to execute symbolically, so solver-based checking of the real code has nothing to encode.",
    },
    {
        "property_id": "C17",
        "reason": "Kani/CBMC give panic abort semantics (no unwinding edges, no drops during unwinding); the post-panic states the property speaks about do not exist in the model, and a MIR-level encoder would need a heap model of Vec internals that is out of reach.",
    },
]

PLAN = {}

ARCH_NOTE = (
    " Pre-states are built directly (Archetype::from_raw_parts, Allocator struct literal) from symbolic contents under the "
    "representation invariants ArchInv/AllocInv/LinkInv; shapes (registry, component subset, row count, capacity, slot count, "
    "free-list length) are concrete per harness instance."
)

PLAN["C01"] = {
    "quick": ["rm_q_", "push_q_", "ext_q_", "shape_q_", "set_q_", "clear_q_", "canon_q_", "tbl_q_"],
    "thorough": ["rm_t_", "push_t_", "ext_t_", "shape_t_", "set_t_", "clear_t_", "grow_"],
    "bounds": {"quick": "rows<=3 per archetype, slots<=4, batch<=2, registries (A,B),(A,Z,D),(D,B,W,A)", "thorough": "rows<=3, slots<=4, batch<=3, capacity both exact (growth path) and spare"},
    "outside": ["histories only through the one-step inductive argument", "World-level glue beyond the tiny shapes", "worlds larger than the shapes"],
    "level_text": "Bounded model checking of the real archetype/allocator operations against a plain-array reference model: effect on the target entity and frame (every other entity keeps its identifier, component set and values) for every symbolic target row, payload and slot assignment within the shapes.",
    "level_note": KANI_NOTE + ARCH_NOTE,
}

PLAN["C02"] = {
    "quick": ["allocb_q_", "alloc1_q_", "allocf_q_", "allocm_q_", "allocs_q_", "rm_q_"],
    "thorough": ["allocb_t_", "alloc1_t_", "allocf_t_", "allocm_t_", "allocs_t_", "rm_t_", "clear_"],
    "bounds": {"quick": "slots<=3, free<=2, batch<=2", "thorough": "slots<=4, free<=4, batch<=3; batch <,=,> free list all instantiated"},
    "outside": ["generation counter wrap at 2^64 (generations assumed < u64::MAX)"],
    "level_text": "Bounded model checking, one-step inductive: from any allocator state of the shape, one real operation; every returned identifier has a generation above everything ever issued for its slot (or a fresh index), an arbitrary probe identifier (any index, any generation, i.e. every stale identifier, not only the latest) keeps resolving iff it was live and is not the target, and never starts resolving unless it was just returned.",
    "level_note": KANI_NOTE + " Ghost argument: issued generations of a slot never exceed its current generation (DESIGN.md §2).",
}

PLAN["C04"] = {
    "quick": ["rm_q_azd", "shape_q_rm_d", "set_q_d", "clear_q_", "push_q_azd"],
    "thorough": ["rm_t_dbwa", "shape_t_", "set_t_", "clear_t_", "push_t_dbwa", "ext_", "grow_"],
    "bounds": {"quick": "rows<=3, one ledger column", "thorough": "rows<=3, <=2 archetypes"},
    "outside": ["panics (C17)", "resources (dropped by ordinary Rust ownership of the resource list)"],
    "level_text": "Bounded model checking with a per-value drop ledger: immediately after each real operation exactly the values it is specified to destroy have been dropped once; after dropping the structure every value ever minted has been dropped exactly once.",
    "level_note": KANI_NOTE + ARCH_NOTE,
}

PLAN["C05"] = {
    "quick": ["grow_q_", "ext_q_", "shape_q_", "push_q_ab_n1_grow", "rm_q_ab"],
    "thorough": ["grow_t_", "ext_t_", "shape_t_", "push_", "rm_", "set_", "clear_", "alloc"],
    "bounds": {"quick": "as C01", "thorough": "as C01"},
    "outside": ["alignment of deallocation (not modelled by Kani)", "allocation failure", "hashbrown's own unsafe code", "real threads"],
    "level_text": "CBMC's memory model over the compiled code: every dereference, bounds, double free, dealloc/realloc size and arithmetic-overflow check Kani inserts is discharged for all symbolic inputs of each harness; the vocabulary mixes a zero-sized, a 1-byte, a 4-byte and a 16-aligned component so that a wrong column/length/capacity changes an object size or access width.",
    "level_note": KANI_NOTE + ARCH_NOTE,
}

PLAN["C13"] = {
    "quick": ["allocb_q_", "alloc1_q_", "allocf_q_", "rm_q_", "push_q_", "ext_q_", "shape_q_", "clear_q_"],
    "thorough": ["allocb_t_", "alloc1_t_", "allocf_t_", "allocm_", "rm_t_", "push_t_", "ext_t_", "shape_t_", "clear_t_"],
    "bounds": {"quick": "slots<=3, free<=2, batch<=2, rows<=3", "thorough": "slots<=4, free<=4, batch<=3, rows<=3"},
    "outside": ["generation counter wrap at 2^64"],
    "level_text": "Bounded model checking, one-step induction over the representation invariants: from every pre-state of a small concrete shape satisfying AllocInv/ArchInv/LinkInv, one real operation with symbolic arguments re-establishes them (active+free = slots, every row reachable through exactly one identifier, nothing lost or duplicated).",
    "level_note": KANI_NOTE + ARCH_NOTE,
}

PLAN["C01"]["quick"] += ["world_q_", "worldop_q_"]
PLAN["C01"]["thorough"] += ["world_t_"]
PLAN["C13"]["quick"] += ["world_q_", "allocc_q_", "tbl_q_", "allocs_q_", "worldop_q_", "rows_q_"]
PLAN["C13"]["thorough"] += ["world_t_", "allocc_t_", "tbl_t_", "allocs_t_", "rows_t_"]
PLAN["C13"]["stubs"] = ["hashbrown -> /verif/models/hashbrown (E2) for the world_/allocc_ harnesses", "fnv -> constant hasher (hash values are ignored by the hashbrown model)"]
PLAN["C02"]["quick"] += ["world_q_", "worldop_q_"]
PLAN["C02"]["thorough"] += ["allocc_"]
PLAN["C04"]["quick"] += ["clone_q_", "clonefrom_q_"]
PLAN["C04"]["thorough"] += ["clone_t_", "clonefrom_t_"]
PLAN["C05"]["thorough"] += ["clone", "view_", "entryq_", "entries_"]

PLAN["C03"] = {
    "quick": ["filt_q_", "view_q_", "entryq_q_", "entries_q_"],
    "thorough": ["view_t_", "entryq_t_", "entries_t_"],
    "bounds": {"quick": "registry<=4 (+9 for the filter family), rows<=3, view lists<=5", "thorough": "same, more view orders and shapes"},
    "outside": ["result::Iter chaining across archetypes and its size_hint (does not fit in memory even for 2 archetypes x 1 row; its per-archetype steps filter, view+reshape, iterate are checked separately)", "query-time Entries beyond the instantiated sub/super view pairings", "mutation through views followed by re-reads (address equality is checked instead)", "hash-order dependent interleavings of archetypes"],
    "stubs": ["hashbrown -> /verif/models/hashbrown (E2) for entryq_", "fnv -> constant hasher"],
    "level_text": "Bounded model checking: every filter form is compared with a reference predicate for a symbolic identifier (all component sets of the registry at once); every reference yielded by Archetype::view+reshape and by Entry::query is compared by address with the cell of exactly that component and row, optional views are None iff the bit is clear, one result per row, size_hint brackets the remaining count before every next().",
    "level_note": KANI_NOTE + ARCH_NOTE,
}

PLAN["C10"] = {
    "quick": ["clone_q_", "clonefrom_q_", "allocc_q_", "tbl_q_clone_"],
    "thorough": ["clone_t_", "clonefrom_t_", "allocc_t_"],
    "bounds": {"quick": "rows<=2 per side, slots<=3", "thorough": "rows<=3 per side, slots<=4; destination longer, equal, shorter; capacity sufficient and insufficient"},
    "outside": ["Archetypes::clone of a table holding rows or more than one archetype, Archetypes::clone_from (table level), and World::clone beyond their archetype and allocator halves (Archetypes::clone of a one-archetype rowless table is checked: tbl_q_clone_)", "further histories on both worlds (covered only through the invariants the clone re-establishes)"],
    "stubs": ["hashbrown -> /verif/models/hashbrown (E2) for the identifier map of allocc_", "fnv -> constant hasher"],
    "level_text": "Bounded model checking of Archetype::clone/clone_from and Allocator::clone/clone_from: contents equal to the source row by row whatever the destination held, every buffer of the clone is its own allocation, dropping either side leaves the other intact, ledger shows replaced values dropped once and clones minted once; the allocator clone copies generations, liveness and free-list order and maps every location into the clone's own archetypes.",
    "level_note": KANI_NOTE + ARCH_NOTE,
}

PLAN["C16"] = {
    "quick": ["eq_q_", "tbl_q_eq_"],
    "thorough": ["eq_t_"],
    "bounds": {"quick": "rows<=2", "thorough": "rows<=3, 4-component registry"},
    "outside": ["Archetypes::eq / World::eq above Archetype::component_eq and the derived slot comparison, except that tables with different numbers of (rowless) archetypes compare unequal (tbl_q_eq_)", "worlds beyond the shapes"],
    "level_text": "Bounded model checking: for two symbolic archetypes of one shape, component_eq(a,b) holds exactly when identifier columns and all value columns are equal row by row (reference model), and is symmetric and reflexive.",
    "level_note": KANI_NOTE + ARCH_NOTE,
}

PLAN["C18"] = {
    "quick": ["batch_q_", "dupnew_q_", "dupres_q_", "dupdef_q_", "nodup_q_", "dupde_q_", "nodupde_q_"],
    "thorough": ["batch_t_", "dupnew_t_", "dupres_t_", "dupdef_t_", "nodup_t_", "dupde_t_"],
    "bounds": {"quick": "batches of 1..3 columns with symbolic lengths 0..=3; registries of length 2,3 (all position pairs) and 9 (7,8)", "thorough": "batches of 1..4 columns; registries of length 2..5 (all position pairs), length 9 pairs straddling the byte boundary"},
    "outside": ["registry lengths 6..8", "World::deserialize is exercised on the empty-world stream only"],
    "stubs": ["hashbrown -> /verif/models/hashbrown (E2): HashSet<TypeId> used by the duplicate check", "fnv -> constant hasher"],
    "level_text": "Bounded model checking: Batch::new returns iff all (symbolic) column lengths are equal and otherwise panics (the statement after the constructor is unreachable for every ragged input); every World constructor panics for every instantiated registry with a duplicated component and returns for duplicate-free ones. The registry family is instantiated exhaustively up to the bound, not solver-quantified.",
    "level_note": KANI_NOTE,
}

PLAN["C09"] = {
    "quick": ["par_q_"],
    "thorough": ["par_t_"],
    "bounds": {"quick": "rows<=3, split depth 2 (three pieces at symbolic indices), registries (A,B),(D,B,W,A)", "thorough": "same, view lists up to 5 in any order, zero-sized component, empty archetype"},
    "outside": ["rayon's scheduler, pool sizes and real concurrent execution", "the archetype-level fan-out (ParIter / ResultsConsumer / ResultsFolder) across several archetypes", "outcome of parallel systems"],
    "level_text": "Bounded model checking of Archetype::par_view + reshape + into_parallel_iterator driven through rayon's own Producer plumbing without threads: for every pair of split points the three pieces together visit every row exactly once in sequential order, every reference points (by address) at the cell of exactly that component and row, so no two items share a mutable cell; len/opt_len equal the row count; RepeatNone::split_at conserves the count.",
    "level_note": KANI_NOTE + ARCH_NOTE + " Rayon's splitting policy is over-approximated by arbitrary split indices; real threads are not modelled.",
}

PLAN["C15"] = {
    "quick": ["rsrc_q_"],
    "thorough": ["rsrc_t_"],
    "bounds": {"quick": "resource lists of 3 pairwise different types, symbolic values, one entity operation (insert, reserve)", "thorough": "plus lists of 0 and 1 resources, clone and clone_from of (entity-free) worlds"},
    "outside": ["serde round trip of resources", "resource views inside systems/schedules", "three-view orders other than list order and reversed (some rotations are rejected by the type-level reshape and never compile)", "entity histories longer than one operation"],
    "stubs": ["hashbrown -> /verif/models/hashbrown (E2)", "fnv -> constant hasher"],
    "level_text": "Bounded model checking with symbolic resource values: get/get_mut/view_resources return the resource of the requested type at every list position and requested order, a write through one handle is read back through every other, insert/reserve leave the resource list bit-for-bit equal, clone copies and clone_from replaces every resource, worlds differing in any resource compare unequal.",
    "level_note": KANI_NOTE + " The lookup itself is resolved by the type checker; the harnesses execute the resolved code with symbolic values.",
}

SERDE_STUBS = ["alloc::fmt::format -> empty String (error-message construction on serde error paths)", "hashbrown -> /verif/models/hashbrown (E2) where a table is involved", "fnv -> constant hasher", "serde data format -> the harness token back end (/verif/harness/serde_backend.rs): structs are written as plain sequences (field-name dispatch not exercised)"]

PLAN["C06"] = {
    "quick": ["serrt_q_", "allocde_q_", "identde_q_", "allocser_q_"],
    "thorough": ["serrt_t_", "allocde_t_", "identde_t_", "allocser_t_"],
    "bounds": {"quick": "archetype round trip: <=2 rows x <=3 columns, both encodings; allocator: 2 slots", "thorough": "archetype: 4-component registry with an absent component, empty archetype, empty component set; allocator: <=4 slots, free list <=2"},
    "outside": ["whole-World round trip (Archetypes/World Serialize+Deserialize glue, resources)", "Allocator::serialize -> DeserializeAllocator round trip as one run (does not finish in 900 s even for 2 slots; the two directions are checked separately: allocser_ compares the written tokens with the slot table and free list, from_serialized_parts is checked on arbitrary input)", "worlds larger than the shapes", "the column-wise decoder with a zero-sized column (does not fit in 20 GB)", "field-name (map) form of struct encodings", "serde data formats themselves"],
    "stubs": SERDE_STUBS,
    "level_text": "Bounded model checking of brood's real Serialize and Deserialize impls against each other over a token back end: archetype (row-wise and column-wise) and identifier round trips reproduce identifiers and values row by row with independent ownership (ledger); Allocator::from_serialized_parts rebuilds exactly the slot table the given free list and stored identifiers describe (free-list order and generations of freed slots preserved).",
    "level_note": KANI_NOTE + ARCH_NOTE,
    "timeout": {"quick": 900, "thorough": 3600},
}
PLAN["C13"]["timeout"] = {"quick": 900, "thorough": 1800}

PLAN["C11"] = {
    "quick": ["serbad_q_", "allocde_q_", "identde_q_"],
    "thorough": ["serbad_t_", "allocde_t_", "identde_t_"],
    "bounds": {"quick": "archetype stream of 25/27 tokens (2 rows x 2 columns): read error at 3 positions per encoding, 2 structural substitutions; allocator: declared length <=3, <=3 arbitrary identifiers (index < 8, any generation)", "thorough": "read error at every token position of both encodings; 8 structural substitutions (identifier byte, declared length, early end); allocator: declared length <=4, <=4 arbitrary identifiers"},
    "outside": ["whole-World streams", "symbolic damage positions (every decoding decision becomes symbolic; measured not to fit) - positions are swept by instances instead", "leaks on error paths are not counted as violations (C11 forbids double drops and UB)", "text formats"],
    "stubs": SERDE_STUBS,
    "level_text": "Bounded model checking of the decoders on damaged input: for every swept damage the archetype decoders return an error or a well-formed archetype, never drop a value twice (ledger) and pass CBMC's memory checks; Allocator::from_serialized_parts accepts an arbitrary (symbolic) set of free and stored identifiers exactly when every slot is accounted for once, and then AllocInv and LinkInv hold; archetype identifiers are accepted exactly when their padding bits are clear.",
    "level_note": KANI_NOTE + ARCH_NOTE,
    "timeout": {"quick": 900, "thorough": 3600},
}

PLAN["C08"] = {
    "quick": ["claim_", "stagepair_q_"],
    "thorough": [],
    "smt": ["tables"],
    "bounds": {"quick": "claim lists of length 4 (symbolic); every view kind pair on one component/resource; table: 5 view kinds x 5 claimed kinds, view lists <=3 over <=3 components", "thorough": "same"},
    "outside": ["the early-start path (run_add_ons / has_run) on worlds with archetypes (does not fit in memory)", "real threads and interleavings", "the hlist plumbing feeding the tables (Stager/Scheduler recursion) beyond two adjacent tasks"],
    "stubs": [],
    "level_text": "Solver-checked static conflict table re-extracted from the source on every run (E3a: no row defers on a conflicting pair, list-level fold cuts on every conflict), validated against rustc's real trait resolution for every pair of view kinds (stagepair harnesses); bounded model checking of the run-time claim algebra (try_merge = reference compatibility, pointwise join) and of the claims each view list makes.",
    "level_note": KANI_NOTE + " E3a trusts its regular-expression extraction of the impl headers (cross-validated by the stagepair harnesses) and z3/cvc5.",
}

PLAN["C12"] = {
    "quick": ["stagepair_q_", "sched_q_"],
    "thorough": ["sched_t_"],
    "smt": ["tables"],
    "bounds": {"quick": "every pair of view kinds on one component / resource; schedules of 2 tasks on an entity-free world", "thorough": "schedules of 3 tasks"},
    "outside": ["for every schedule type (grouping is rustc trait resolution; only adjacent pairs are instantiated)", "termination on thread pools of any size (no thread model)", "worlds with archetypes"],
    "stubs": ["rayon_core::join::join -> sequential either-order executor (one symbolic bit per fork)"],
    "level_text": "E3a: no table row cuts on a non-conflicting pair (no spurious serialisation); stagepair harnesses: rustc puts two adjacent non-conflicting tasks in one stage for every kind pair; run_schedule returns within the unwinding bound for every fork order on the checked schedules.",
    "level_note": KANI_NOTE + " Partly claimed: see outside_the_claim.",
}

PLAN["C07"] = {
    "quick": ["sched_q_"],
    "thorough": ["sched_t_"],
    "bounds": {"quick": "2 tasks, resources only, entity-free world, every fork order", "thorough": "3 tasks"},
    "outside": ["schedules whose systems iterate entities (the result iterator over a table does not fit)", "the early-start optimisation on worlds with archetypes", "thread pools, work stealing, sub-task interleavings", "ParSystem tasks"],
    "stubs": ["rayon_core::join::join -> sequential either-order executor (one symbolic bit per fork)", "hashbrown -> /verif/models/hashbrown (E2)", "fnv -> constant hasher"],
    "level_text": "Bounded model checking of World::run_schedule on three tiny schedules of order-sensitive resource systems with rayon::join replaced by a sequential either-order executor: for every task order the fork/join structure admits, every task runs exactly once and the resources end as in sequential declared order.",
    "level_note": KANI_NOTE + " Claimed on three schedules only, not for every schedule.",
}

PLAN["C03"]["quick"] += ["indices_q_", "bitwalk_q_"]
PLAN["C03"]["smt"] = ["bitwalk"]
PLAN["C03"]["level_note"] = PLAN["C03"]["level_note"] + " E3b trusts its MIR-subset translator (validated on every run against the repository's own unit-test vectors) and z3/cvc5."
PLAN["C03"]["level_text"] = PLAN["C03"]["level_text"] + " E3b: the bit walk all of this rests on (identifier::Iter::new/next, IdentifierRef::get_unchecked) is in bounds and bit-exact for every registry length < 2^32 (MIR translated to bit-vector SMT, one-step induction)."
PLAN["C05"]["smt"] = ["bitwalk"]
PLAN["C05"]["quick"] += ["bitwalk_q_len8", "bitwalk_q_len9"]
PLAN["C16"]["thorough"] += ["rsrc_t_clone"]

GLUE_TEXT = " E3c: the World-level glue (World::insert/extend/remove/clear, Entry::add/remove) is checked compositionally over its MIR: callees replaced by the contracts the harness groups above establish, `stored rows == active slots == len` and the specified new count proved for every path (z3 + cvc5)."
BITS_TEXT = " E3d: the component-set arithmetic of Entry::add/remove (which table the entity moves to) is bit-exact for every registry length < 2^32 and every component position (MIR to bit-vector SMT)."
for _pid in ("C13", "C01"):
    PLAN[_pid]["smt"] = ["glue", "entrybits"]
    PLAN[_pid]["level_text"] += GLUE_TEXT + BITS_TEXT
    PLAN[_pid]["level_note"] += " E3c trusts its MIR-subset translator and the stated callee contracts."
    PLAN[_pid]["outside"] = [o for o in PLAN[_pid]["outside"] if "World-level glue" not in o] + ["World-level glue other than through E3c's counter abstraction (values and identities at World level are argued from the archetype-level harnesses)"]

TECH = {
    "tables": "z3/cvc5 over the schedule's conflict tables re-extracted from the source (E3a), counterexamples replayed through rustc's trait resolution",
    "bitwalk": "nightly MIR of the identifier bit walkers translated to bit-vector SMT for a symbolic registry length (E3b, z3+cvc5)",
    "glue": "assume-guarantee symbolic execution of the World-level glue's MIR over callee contracts (E3c, z3+cvc5)",
    "entrybits": "symbolic execution of the identifier bit arithmetic in Entry::add/remove's MIR for a symbolic registry (E3d, z3+cvc5)",
}
for _pid, _p in PLAN.items():
    _t = "bounded model checking of the compiled Rust code by Kani/CBMC (SAT verdict over symbolic inputs within concrete shapes)"
    for _e in _p.get("smt", []):
        _t += "; " + TECH[_e]
    _p["technique"] = _t
PLAN["C06"]["outside"] = [o.replace("whole-World round trip (Archetypes/World Serialize+Deserialize glue, resources)", "whole-World round trip of non-empty worlds (only the empty world with resources goes through World's own Serialize/Deserialize)") for o in PLAN["C06"]["outside"]]
PLAN["C15"]["thorough"] += ["serrt_q_world_empty"]
PLAN["C15"]["outside"] = [o.replace("serde round trip of resources", "serde round trip of resources other than on an empty world (thorough tier)") for o in PLAN["C15"]["outside"]]

for _p in PLAN.values():
    _p.setdefault("level", "model_checking")
    _p.setdefault("stubs", [])
    _p.setdefault("assumptions", [])
    _p.setdefault("explanation", "")

_claimed = set(PLAN)
for _p in []:
    if _p not in _claimed:
        NOT_APPLICABLE.append({"property_id": _p, "reason": "not claimed yet: the harnesses for this property are still under construction (see DESIGN.md build order)"})
NOT_APPLICABLE.sort(key=lambda x: x["property_id"])
for e in ENGINES:
    if e["name"].startswith("E1"):
        e["serves_properties"] = sorted(p for p in PLAN)


INPUTS = [
    ("allocb_", "symbolic: which slots are free and in which order, every generation, every location, a probe identifier (any index, any generation); concrete: slot count n, free count f, batch size k (name suffix)"),
    ("alloc1_", "as allocb_, one allocate call with a symbolic row"),
    ("allocf_", "as allocb_, plus a symbolic live target identifier"),
    ("allocm_", "as allocb_, symbolic target, new row index and which update function"),
    ("allocc_", "symbolic source (and destination) allocator contents; concrete slot and free counts; identifier map old->new of two archetypes"),
    ("rm_", "symbolic cell values, row<->slot assignment, generations, target row, probe identifier; concrete registry, component subset, rows n"),
    ("push_", "symbolic cell values, entity payload, slot assignment; concrete rows and capacity (exact = growth path)"),
    ("ext_", "symbolic cell values and batch payloads; concrete rows, capacity, batch size k (0 = adoption of the caller's Vecs)"),
    ("shape_", "symbolic cell values, slot assignment, target row, added component payload; concrete source/target component sets and row counts"),
    ("set_", "symbolic cell values, target row and new value"),
    ("clear_", "symbolic cell values and slot assignment; then one symbolic push"),
    ("grow_", "symbolic cell values, symbolic order of reserve and shrink_to_fit, then one symbolic push"),
    ("clone_", "symbolic cell values and identifiers of the source"),
    ("clonefrom_", "symbolic cell values and identifiers of source and destination; concrete row counts and destination capacity"),
    ("eq_", "two archetypes of one shape with symbolic identifiers and cell values"),
    ("filt_", "symbolic identifier byte(s) with clear padding: every component set of the registry at once"),
    ("view_", "symbolic cell values and identifiers; every row visited"),
    ("entryq_", "symbolic cell values, identifiers and target row"),
    ("indices_", "no symbolic input: type-level computation executed and compared with registry positions"),
    ("par_", "symbolic cell values and two symbolic split indices (three pieces)"),
    ("rows_", "symbolic cell values and identifiers; concrete component set and row count"),
    ("tbl_", "no symbolic input: the table operations run on concrete shapes (deterministic)"),
    ("worldop_", "symbolic component values; concrete slot table built by real inserts"),
    ("entries_", "symbolic cell values, identifiers and which row is looked up; concrete shapes, views and filter"),
    ("world_", "symbolic payload of the inserted entity and a symbolic stale generation"),
    ("rsrc_", "symbolic resource values (u8, u16, u32) and written values"),
    ("batch_", "symbolic column lengths in 0..=3 (equal twin / some pair differs)"),
    ("dup", "no symbolic input: registry with one duplicated component, constructor must panic"),
    ("nodup_", "no symbolic input: duplicate-free registry, constructors must return"),
    ("claim_merge_", "two symbolic claim lists of length 4"),
    ("claim_views_", "no symbolic input: claims of view lists compared with the kind at each registry position"),
    ("stagepair_", "no symbolic input: Stages type resolved by rustc for two adjacent tasks"),
    ("sched_", "symbolic resource values and one symbolic bit per rayon::join (order of the two closures)"),
    ("serrt_", "symbolic cell values and identifiers; concrete shape and encoding"),
    ("serbad_", "symbolic cell values and identifiers; concrete damage (position / substituted token) from the instance name"),
    ("identde_", "symbolic identifier bytes"),
    ("allocser_", "symbolic free list (which slots, in which order), generations and locations; concrete slot count, free count and ring-buffer rotation"),
    ("allocde_", "every identifier of the input symbolic (index < 8, any generation): free list and both identifier columns; concrete declared length"),
    ("bitwalk_", "symbolic identifier bytes with clear padding; concrete registry length"),
]


def describe_inputs(harness):
    for prefix, text in INPUTS:
        if harness.startswith(prefix):
            return text
    return ""


def run_smt(engine, repo, tier, scratch):
    """Runs one SMT engine; returns its JSON result with violations already replayed."""
    import json
    import os
    import subprocess
    import sys

    verif = os.path.dirname(os.path.dirname(os.path.abspath(__file__)))
    script = {"tables": "tables.py", "bitwalk": "bitwalk.py", "glue": "glue.py", "entrybits": "entrybits.py"}[engine]
    p = subprocess.run(["python3-vt", os.path.join(verif, "smt", script), repo, tier], stdout=subprocess.PIPE, stderr=subprocess.PIPE, text=True)
    try:
        r = json.loads(p.stdout)
    except Exception:
        return {"engine": engine, "obligations": 0, "discharged": 0, "violations": [], "samples": [],
                "inconclusive": ["engine crashed: " + (p.stderr or p.stdout)[-800:]]}
    if r.get("violations"):
        sys.path.insert(0, os.path.join(verif, "lib"))
        import runner

        os.makedirs(os.path.join(verif, "replays", "smt"), exist_ok=True)
        for i, v in enumerate(r["violations"]):
            path = os.path.join(verif, "replays", "smt", "%s-%d.json" % (engine, i))
            v["replay"] = path
            v["reproduced"] = False
            harness = v.get("replay_harness")
            if engine == "tables" and not harness and v.get("kind") not in ("ambiguous", "merger", "inverse", "fold"):
                # replay through rustc's real resolution: the whole family of adjacent-task instances
                # (every kind pair on one component / resource, and two-view lists); a reproduced
                # counterexample makes at least one of them fail
                harness = "stagepair_q_"
            if engine == "entrybits":
                # replay against the real code: exhaustive public-API scenario over registry lengths 1,2,3,4,8,9
                import shutil

                w = os.path.join(scratch, "w")
                shutil.copy(os.path.join(verif, "harness", "native", "entrybits_replay.rs"), os.path.join(w, "tests", "entrybits_replay.rs"))
                env = dict(os.environ)
                env["CARGO_NET_OFFLINE"] = "true"
                env.pop("RUSTFLAGS", None)
                t = subprocess.run(["cargo", "test", "--offline", "--test", "entrybits_replay"], cwd=w, env=env, stdout=subprocess.PIPE, stderr=subprocess.STDOUT, text=True)
                ran = "Running tests/entrybits_replay.rs" in t.stdout
                v["reproduced"] = ran and t.returncode != 0 and v.get("small_len") in (1, 2, 3, 4, 8, 9)
                v["replay_detail"] = [l for l in t.stdout.splitlines() if "panicked" in l or "test result" in l or l.startswith("test ") or "component" in l][:20]
                v["replay_harness"] = "harness/native/entrybits_replay.rs (cargo test --test entrybits_replay)"
            elif engine == "glue":
                # replay against the real code: public-API scenarios (one per glue function and path)
                # with an audit of len / contains / stored rows after every operation, run natively
                import shutil

                w = os.path.join(scratch, "w")
                shutil.copy(os.path.join(verif, "harness", "native", "glue_replay.rs"), os.path.join(w, "tests", "glue_replay.rs"))
                env = dict(os.environ)
                env["CARGO_NET_OFFLINE"] = "true"
                env.pop("RUSTFLAGS", None)
                t = subprocess.run(["cargo", "test", "--offline", "--test", "glue_replay"], cwd=w, env=env, stdout=subprocess.PIPE, stderr=subprocess.STDOUT, text=True)
                # a failing scenario may abort the test process (std's unchecked-precondition checks), so
                # "the test binary ran and did not exit cleanly" is the criterion, not a result line
                ran = "Running tests/glue_replay.rs" in t.stdout
                v["reproduced"] = ran and t.returncode != 0
                v["replay_detail"] = [l for l in t.stdout.splitlines() if "panicked" in l or "test result" in l or l.startswith("test ")][:20]
                v["replay_harness"] = "harness/native/glue_replay.rs (cargo test --test glue_replay)"
            elif harness:
                # replay against the real code: rustc resolves brood's real impls for that pair of
                # tasks and the harness compares the resulting stage structure with the reference
                data, out, _ = runner.run_kani(scratch, [harness], 2, 600, "smt-replay-%d" % i)
                dig = runner.summarise_kani(data, out)
                v["replay_harness"] = harness
                v["reproduced"] = any(h["status"] != "Success" and h["failed"] for h in dig.values())
                v["replay_detail"] = {runner.short(k): [c["description"] for c in h["failed"]] for k, h in dig.items()}
            else:
                # structural finding about the table itself (missing/ambiguous row, merger, fold):
                # the extracted row is the evidence; it is read straight from the source
                v["reproduced"] = v.get("kind") in ("ambiguous", "merger", "inverse", "fold", "no missing row", "identifier view never cuts")
            json.dump(v, open(path, "w"), indent=1)
    return r
