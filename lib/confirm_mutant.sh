#!/bin/bash
# usage: confirm_mutant.sh <patch.diff> <demo.rs>  -- confirms (in a scratch worktree of /repo):
#   patch applies, library builds with and without features, existing suite passes with the patch,
#   demo fails with the patch and passes without it.
set -u
PATCH=$(readlink -f "$1"); DEMO=$(readlink -f "$2"); WT=${WT:-/tmp/mutcheck}
export CARGO_NET_OFFLINE=true
if [ ! -d "$WT" ]; then git -C /repo worktree add -q --detach "$WT" HEAD || exit 9; fi
cd "$WT" && git checkout -q --detach $(git -C /repo rev-parse HEAD) && git checkout -- . && git clean -fdq tests
git apply "$PATCH" || { echo "RESULT patch-does-not-apply"; exit 1; }
cargo build --offline --features serde,rayon >/dev/null 2>&1 || { echo "RESULT build-fails-with-features"; git checkout -- .; exit 1; }
S1=$(cargo test --offline 2>&1 | grep -E "^test result" | tr '\n' ' ')
S2=$(cargo test --offline --features serde,rayon --lib 2>&1 | grep -E "^test result" | tr '\n' ' ')
cp "$DEMO" tests/zz_demo.rs
D1=$(cargo test --offline --features serde,rayon --test zz_demo 2>&1 | grep -E "^test result|error(\[|:)" | head -3 | tr '\n' ' ')
git checkout -- src
D0=$(cargo test --offline --features serde,rayon --test zz_demo 2>&1 | grep -E "^test result|error(\[|:)" | head -3 | tr '\n' ' ')
rm -f tests/zz_demo.rs
echo "suite(default): $S1"
echo "suite(features,lib): $S2"
echo "demo with patch: $D1"
echo "demo without:    $D0"
