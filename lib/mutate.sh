#!/bin/bash
# usage: mutate.sh <patch.diff> <property> [extra check args...]
# Applies a seeded change to /repo's working tree, runs the check, and always restores /repo.
PATCH=$(readlink -f "$1"); shift
cd /repo || exit 9
if ! git diff --quiet; then echo "/repo has uncommitted changes; refusing"; exit 9; fi
git apply "$PATCH" || { echo "patch does not apply"; exit 9; }
trap 'git -C /repo checkout -- . ' EXIT
cd /verif && ./check "$@"
echo "exit=$?"
