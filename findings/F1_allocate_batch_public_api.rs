// Public-API reproduction of finding F1 (C13/C06): `World::extend` with a batch shorter than the
// free list loses one free slot.  Drop into `tests/` of brood (needs `--features serde` only for the
// last assertion group; the first part needs no features).
//
// Before the fix: the identifier returned by the final `insert` has index 3 (a fresh slot) although
// slot 1 or 2 is still unused, i.e. a released identifier index is lost forever.
use brood::{entities, entity, Registry, World};

#[derive(Clone, Debug, PartialEq)]
struct A(u32);

type R = Registry!(A);

#[test]
fn batch_shorter_than_free_list_loses_no_slot() {
    let mut world = World::<R>::new();
    let ids = world.extend(entities!((A(1)); 3));
    world.remove(ids[1]);
    world.remove(ids[2]);
    // free list now holds two slots; a batch of one must consume exactly one of them
    let _ = world.extend(entities!((A(2)); 1));
    let next = world.insert(entity!(A(3)));
    // 3 slots exist, 3 entities are live: the last insert must have reused a slot
    assert_eq!(world.len(), 3);
    let dbg = format!("{:?}", next);
    assert!(!dbg.contains("index: 3"), "a released slot was lost: {dbg}");
}
