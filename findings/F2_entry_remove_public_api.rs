// Public-API reproduction of finding F2 (C04): `Entry::remove` never drops the removed component.
// Drop into `tests/` of brood.  Before the fix the counter is still 0 after the world is dropped.
use brood::{entity, Registry, World};
use std::sync::atomic::{AtomicUsize, Ordering};

static DROPS: AtomicUsize = AtomicUsize::new(0);

struct A(u32);
struct D;
impl Drop for D {
    fn drop(&mut self) {
        DROPS.fetch_add(1, Ordering::SeqCst);
    }
}

type R = Registry!(A, D);

#[test]
fn removed_component_is_dropped_exactly_once() {
    let mut world = World::<R>::new();
    let id = world.insert(entity!(A(1), D));
    world.entry(id).unwrap().remove::<D, _>();
    assert_eq!(DROPS.load(Ordering::SeqCst), 1, "detached component dropped at removal");
    drop(world);
    assert_eq!(DROPS.load(Ordering::SeqCst), 1, "and never again");
}
