//! Model of `fnv`: same public names, constant hash.
#![no_std]

use core::hash::{
    BuildHasherDefault,
    Hasher,
};

#[derive(Clone, Copy)]
pub struct FnvHasher(u64);

impl Default for FnvHasher {
    #[inline]
    fn default() -> FnvHasher {
        FnvHasher(0xcbf29ce484222325)
    }
}

impl FnvHasher {
    #[inline]
    pub fn with_key(key: u64) -> FnvHasher {
        FnvHasher(key)
    }
}

impl Hasher for FnvHasher {
    #[inline]
    fn finish(&self) -> u64 {
        self.0
    }

    #[inline]
    fn write(&mut self, _bytes: &[u8]) {}
}

pub type FnvBuildHasher = BuildHasherDefault<FnvHasher>;
