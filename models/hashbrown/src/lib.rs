//! Functional model of the part of `hashbrown` 0.14 that brood uses (engine E2).
//!
//! A hash table's observable behaviour does not depend on the hash function as long as it is
//! consistent with `Eq`; this model is the constant-hash instance: every lookup is a linear search
//! by equality.  Storage is a *fixed-capacity inline array* (`CAP` slots) and every loop runs over
//! the constant `CAP` with a guard, so that a bounded model checker never has to guess a loop bound
//! from heap-stored lengths.  Exceeding `CAP` panics ("model capacity exceeded") - a harness that
//! needs more entries fails loudly instead of being silently truncated.
//!
//! Kept faithful because brood relies on it:
//! * `raw::Bucket`s are raw pointers into the table's storage; `erase` of one bucket leaves the
//!   others valid; `shrink_to` compacts the storage (buckets are invalidated, as by a real resize);
//! * `insert_unique_unchecked` / `RawTable::insert` do not look for an existing equal key;
//! * iteration visits every full slot exactly once (slot order; brood's results are specified up to
//!   order).
//! Not modelled: hashing (hash values passed in are ignored, the maps never call their hasher),
//! load factors, SIMD group probing, allocation (tables own no heap memory), allocation failure.
//! Difference to note: the table's elements live inline, so they move when the table moves; brood
//! only keeps pointers to the heap-allocated identifier buffers, never to table elements, across
//! such moves.
#![no_std]

extern crate alloc;

use core::{
    borrow::Borrow,
    hash::BuildHasher,
    mem::MaybeUninit,
};

/// Capacity of a raw table (brood: archetypes per world).
pub const CAP: usize = 4;
/// Capacity of a map.  (`Archetypes::clone` registers every archetype twice in its
/// identifier-bytes lookup map, so maps need twice the table capacity.)
pub const MAP_CAP: usize = 8;
/// Capacity of sets (brood's duplicate-component check inserts one TypeId per registry component).
pub const SET_CAP: usize = 10;

/// Key equivalence, as in hashbrown: `Q` can be compared with the stored key type `K`.
pub trait Equivalent<K: ?Sized> {
    fn equivalent(&self, key: &K) -> bool;
}

impl<Q: ?Sized, K: ?Sized> Equivalent<K> for Q
where
    Q: Eq,
    K: Borrow<Q>,
{
    #[inline]
    fn equivalent(&self, key: &K) -> bool {
        PartialEq::eq(self, key.borrow())
    }
}

#[derive(Clone, Copy, Default, Debug)]
pub struct DefaultHashBuilder;

fn capacity_exceeded() -> ! {
    panic!("hashbrown model capacity exceeded")
}

pub mod raw {
    use super::*;

    pub(crate) struct Slot<T> {
        pub(crate) full: bool,
        pub(crate) value: MaybeUninit<T>,
    }

    /// Pointer to a full slot of a `RawTable`.
    pub struct Bucket<T> {
        pub(crate) ptr: *mut Slot<T>,
    }

    impl<T> Clone for Bucket<T> {
        fn clone(&self) -> Self {
            Bucket { ptr: self.ptr }
        }
    }

    unsafe impl<T> Send for Bucket<T> {}

    impl<T> Bucket<T> {
        /// # Safety
        /// The bucket must still be valid.
        pub unsafe fn as_ref<'a>(&self) -> &'a T {
            unsafe { &*(*self.ptr).value.as_ptr() }
        }

        /// # Safety
        /// As `as_ref`, plus exclusive access.
        pub unsafe fn as_mut<'a>(&self) -> &'a mut T {
            unsafe { &mut *(*self.ptr).value.as_mut_ptr() }
        }

        pub fn as_ptr(&self) -> *mut T {
            unsafe { (*self.ptr).value.as_mut_ptr() }
        }
    }

    pub struct RawTable<T> {
        pub(crate) slots: [Slot<T>; CAP],
        pub(crate) items: usize,
    }

    unsafe impl<T: Send> Send for RawTable<T> {}
    unsafe impl<T: Sync> Sync for RawTable<T> {}

    impl<T> Default for RawTable<T> {
        fn default() -> Self {
            Self::new()
        }
    }

    impl<T> RawTable<T> {
        pub const fn new() -> Self {
            RawTable {
                slots: [const {
                    Slot {
                        full: false,
                        value: MaybeUninit::uninit(),
                    }
                }; CAP],
                items: 0,
            }
        }

        pub fn with_capacity(_capacity: usize) -> Self {
            Self::new()
        }

        pub fn len(&self) -> usize {
            self.items
        }

        pub fn is_empty(&self) -> bool {
            self.items == 0
        }

        pub fn capacity(&self) -> usize {
            CAP
        }

        fn slot_ptr(&self, i: usize) -> *mut Slot<T> {
            unsafe { (self.slots.as_ptr() as *mut Slot<T>).add(i) }
        }

        pub fn find(&self, _hash: u64, mut eq: impl FnMut(&T) -> bool) -> Option<Bucket<T>> {
            let mut found = None;
            let mut i = 0;
            while i < CAP {
                if found.is_none() && self.slots[i].full && eq(unsafe { &*self.slots[i].value.as_ptr() }) {
                    found = Some(i);
                }
                i += 1;
            }
            match found {
                Some(i) => Some(Bucket { ptr: self.slot_ptr(i) }),
                None => None,
            }
        }

        pub fn get(&self, hash: u64, eq: impl FnMut(&T) -> bool) -> Option<&T> {
            match self.find(hash, eq) {
                Some(b) => Some(unsafe { b.as_ref() }),
                None => None,
            }
        }

        pub fn get_mut(&mut self, hash: u64, eq: impl FnMut(&T) -> bool) -> Option<&mut T> {
            match self.find(hash, eq) {
                Some(b) => Some(unsafe { b.as_mut() }),
                None => None,
            }
        }

        /// Inserts without looking for an equal element (as the real one).  The first empty slot
        /// is used, so existing buckets stay valid.
        pub fn insert(&mut self, _hash: u64, value: T, _hasher: impl Fn(&T) -> u64) -> Bucket<T> {
            let mut free = CAP;
            let mut i = 0;
            while i < CAP {
                if free == CAP && !self.slots[i].full {
                    free = i;
                }
                i += 1;
            }
            if free == CAP {
                capacity_exceeded();
            }
            self.slots[free].value = MaybeUninit::new(value);
            self.slots[free].full = true;
            self.items += 1;
            Bucket { ptr: self.slot_ptr(free) }
        }

        pub fn insert_entry(&mut self, hash: u64, value: T, hasher: impl Fn(&T) -> u64) -> &mut T {
            unsafe { self.insert(hash, value, hasher).as_mut() }
        }

        /// # Safety
        /// `item` must be a valid bucket of this table.
        pub unsafe fn erase(&mut self, item: Bucket<T>) {
            unsafe {
                (*item.ptr).full = false;
                core::ptr::drop_in_place((*item.ptr).value.as_mut_ptr());
            }
            self.items -= 1;
        }

        /// # Safety
        /// `item` must be a valid bucket of this table.
        pub unsafe fn remove(&mut self, item: Bucket<T>) -> T {
            unsafe {
                (*item.ptr).full = false;
                self.items -= 1;
                (*item.ptr).value.as_ptr().read()
            }
        }

        /// Compacts the storage towards slot 0; buckets are invalidated (as by a real resize).
        pub fn shrink_to(&mut self, _min_size: usize, _hasher: impl Fn(&T) -> u64) {
            let mut dst = 0;
            let mut i = 0;
            while i < CAP {
                if self.slots[i].full {
                    if dst != i {
                        let v = unsafe { self.slots[i].value.as_ptr().read() };
                        self.slots[i].full = false;
                        self.slots[dst].value = MaybeUninit::new(v);
                        self.slots[dst].full = true;
                    }
                    dst += 1;
                }
                i += 1;
            }
        }

        pub fn clear(&mut self) {
            let mut i = 0;
            while i < CAP {
                if self.slots[i].full {
                    self.slots[i].full = false;
                    unsafe { core::ptr::drop_in_place(self.slots[i].value.as_mut_ptr()) };
                }
                i += 1;
            }
            self.items = 0;
        }

        /// # Safety
        /// The iterator must not outlive the table nor survive a move/shrink of it.
        pub unsafe fn iter(&self) -> RawIter<T> {
            RawIter {
                base: self.slot_ptr(0),
                next: 0,
                remaining: self.items,
            }
        }

        #[cfg(feature = "rayon")]
        /// # Safety
        /// As `iter`.
        pub unsafe fn par_iter(&self) -> rayon::RawParIter<T> {
            rayon::RawParIter {
                iter: unsafe { self.iter() },
            }
        }
    }

    impl<T> Drop for RawTable<T> {
        fn drop(&mut self) {
            self.clear();
        }
    }

    pub struct RawIter<T> {
        base: *mut Slot<T>,
        next: usize,
        remaining: usize,
    }

    impl<T> Clone for RawIter<T> {
        fn clone(&self) -> Self {
            RawIter {
                base: self.base,
                next: self.next,
                remaining: self.remaining,
            }
        }
    }

    unsafe impl<T> Send for RawIter<T> {}

    impl<T> Iterator for RawIter<T> {
        type Item = Bucket<T>;

        fn next(&mut self) -> Option<Bucket<T>> {
            while self.next < CAP {
                let p = unsafe { self.base.add(self.next) };
                self.next += 1;
                if unsafe { (*p).full } {
                    self.remaining -= 1;
                    return Some(Bucket { ptr: p });
                }
            }
            None
        }

        fn size_hint(&self) -> (usize, Option<usize>) {
            (self.remaining, Some(self.remaining))
        }
    }

    impl<T> ExactSizeIterator for RawIter<T> {}

    #[cfg(feature = "rayon")]
    pub mod rayon {
        use super::*;
        use ::rayon::iter::{
            plumbing::{
                Folder,
                Reducer,
                UnindexedConsumer,
            },
            ParallelIterator,
        };

        /// Parallel iterator over buckets.  Executed on the calling thread, but through the
        /// consumer's split / fold / reduce protocol: the bucket list is halved recursively, each
        /// half gets `split_off_left()`, results are combined with `to_reducer()`.
        pub struct RawParIter<T> {
            pub(crate) iter: RawIter<T>,
        }

        unsafe impl<T> Send for RawParIter<T> {}

        fn bridge<T, C>(items: &[Option<Bucket<T>>], consumer: C) -> C::Result
        where
            C: UnindexedConsumer<Bucket<T>>,
        {
            if items.len() > 1 {
                let mid = items.len() / 2;
                let left = consumer.split_off_left();
                let reducer = consumer.to_reducer();
                let r1 = bridge(&items[..mid], left);
                let r2 = bridge(&items[mid..], consumer);
                reducer.reduce(r1, r2)
            } else {
                let mut folder = consumer.into_folder();
                if let Some(Some(b)) = items.first() {
                    folder = folder.consume(b.clone());
                }
                folder.complete()
            }
        }

        impl<T> ParallelIterator for RawParIter<T> {
            type Item = Bucket<T>;

            fn drive_unindexed<C>(mut self, consumer: C) -> C::Result
            where
                C: UnindexedConsumer<Self::Item>,
            {
                let mut items: [Option<Bucket<T>>; CAP] = [const { None }; CAP];
                let mut i = 0;
                while i < CAP {
                    items[i] = self.iter.next();
                    i += 1;
                }
                bridge(&items, consumer)
            }
        }
    }
}

pub mod hash_map {
    use super::*;

    /// Linear-search map with inline storage; entries `0..len` are initialised, insertion order.
    pub struct HashMap<K, V, S = DefaultHashBuilder> {
        pub(crate) entries: [MaybeUninit<(K, V)>; MAP_CAP],
        pub(crate) len: usize,
        pub(crate) hash_builder: S,
    }

    impl<K, V, S> HashMap<K, V, S> {
        fn at(&self, i: usize) -> &(K, V) {
            unsafe { &*self.entries[i].as_ptr() }
        }

        fn at_mut(&mut self, i: usize) -> &mut (K, V) {
            unsafe { &mut *self.entries[i].as_mut_ptr() }
        }

        pub fn with_hasher(hash_builder: S) -> Self {
            HashMap {
                entries: [const { MaybeUninit::uninit() }; MAP_CAP],
                len: 0,
                hash_builder,
            }
        }

        pub fn with_capacity_and_hasher(_capacity: usize, hash_builder: S) -> Self {
            Self::with_hasher(hash_builder)
        }

        pub fn len(&self) -> usize {
            self.len
        }

        pub fn is_empty(&self) -> bool {
            self.len == 0
        }

        pub fn clear(&mut self) {
            let mut i = 0;
            while i < MAP_CAP {
                if i < self.len {
                    unsafe { core::ptr::drop_in_place(self.entries[i].as_mut_ptr()) };
                }
                i += 1;
            }
            self.len = 0;
        }

        pub fn iter(&self) -> Iter<'_, K, V> {
            Iter { map_entries: &self.entries, len: self.len, next: 0 }
        }

        pub fn values(&self) -> Values<'_, K, V> {
            Values { inner: self.iter() }
        }

        pub fn keys(&self) -> Keys<'_, K, V> {
            Keys { inner: self.iter() }
        }

        pub fn shrink_to_fit(&mut self) {}

        fn push(&mut self, k: K, v: V) -> usize {
            if self.len >= MAP_CAP {
                capacity_exceeded();
            }
            let i = self.len;
            self.entries[i] = MaybeUninit::new((k, v));
            self.len += 1;
            i
        }
    }

    impl<K, V, S> Drop for HashMap<K, V, S> {
        fn drop(&mut self) {
            self.clear();
        }
    }

    impl<K: Clone, V: Clone, S: Clone> Clone for HashMap<K, V, S> {
        fn clone(&self) -> Self {
            let mut m = HashMap::with_hasher(self.hash_builder.clone());
            let mut i = 0;
            while i < MAP_CAP {
                if i < self.len {
                    let e = self.at(i);
                    m.push(e.0.clone(), e.1.clone());
                }
                i += 1;
            }
            m
        }
    }

    impl<K, V, S: Default> Default for HashMap<K, V, S> {
        fn default() -> Self {
            Self::with_hasher(S::default())
        }
    }

    impl<K: Eq, V, S: BuildHasher> HashMap<K, V, S> {
        fn position<Q: ?Sized + Equivalent<K>>(&self, k: &Q) -> Option<usize> {
            let mut found = None;
            let mut i = 0;
            while i < MAP_CAP {
                if i < self.len && found.is_none() && k.equivalent(&self.at(i).0) {
                    found = Some(i);
                }
                i += 1;
            }
            found
        }

        pub fn get<Q: ?Sized + Equivalent<K>>(&self, k: &Q) -> Option<&V> {
            match self.position(k) {
                Some(i) => Some(&self.at(i).1),
                None => None,
            }
        }

        pub fn get_mut<Q: ?Sized + Equivalent<K>>(&mut self, k: &Q) -> Option<&mut V> {
            match self.position(k) {
                Some(i) => Some(&mut self.at_mut(i).1),
                None => None,
            }
        }

        pub fn contains_key<Q: ?Sized + Equivalent<K>>(&self, k: &Q) -> bool {
            self.position(k).is_some()
        }

        pub fn insert(&mut self, k: K, v: V) -> Option<V> {
            match self.position(&k) {
                Some(i) => Some(core::mem::replace(&mut self.at_mut(i).1, v)),
                None => {
                    self.push(k, v);
                    None
                }
            }
        }

        /// Inserts without checking whether the key is already present (as the real one).
        pub fn insert_unique_unchecked(&mut self, k: K, v: V) -> (&K, &mut V) {
            let i = self.push(k, v);
            let e = self.at_mut(i);
            (&e.0, &mut e.1)
        }

        /// Order-preserving removal.
        pub fn remove<Q: ?Sized + Equivalent<K>>(&mut self, k: &Q) -> Option<V> {
            match self.position(k) {
                Some(i) => {
                    let (_k, v) = unsafe { self.entries[i].as_ptr().read() };
                    let mut j = 0;
                    while j + 1 < MAP_CAP {
                        if j >= i && j + 1 < self.len {
                            let next = unsafe { self.entries[j + 1].as_ptr().read() };
                            self.entries[j] = MaybeUninit::new(next);
                        }
                        j += 1;
                    }
                    self.len -= 1;
                    Some(v)
                }
                None => None,
            }
        }

        pub fn entry(&mut self, key: K) -> Entry<'_, K, V, S> {
            match self.position(&key) {
                Some(index) => Entry::Occupied(OccupiedEntry {
                    map: self,
                    index,
                    _key: key,
                }),
                None => Entry::Vacant(VacantEntry { map: self, key }),
            }
        }
    }

    pub enum Entry<'a, K, V, S> {
        Occupied(OccupiedEntry<'a, K, V, S>),
        Vacant(VacantEntry<'a, K, V, S>),
    }

    pub struct OccupiedEntry<'a, K, V, S> {
        map: &'a mut HashMap<K, V, S>,
        index: usize,
        _key: K,
    }

    impl<'a, K, V, S> OccupiedEntry<'a, K, V, S> {
        pub fn get(&self) -> &V {
            &self.map.at(self.index).1
        }

        pub fn get_mut(&mut self) -> &mut V {
            &mut self.map.at_mut(self.index).1
        }

        pub fn insert(&mut self, value: V) -> V {
            core::mem::replace(&mut self.map.at_mut(self.index).1, value)
        }

        pub fn key(&self) -> &K {
            &self.map.at(self.index).0
        }
    }

    pub struct VacantEntry<'a, K, V, S> {
        map: &'a mut HashMap<K, V, S>,
        key: K,
    }

    impl<'a, K, V, S> VacantEntry<'a, K, V, S> {
        pub fn insert(self, value: V) -> &'a mut V {
            let i = self.map.push(self.key, value);
            &mut self.map.at_mut(i).1
        }

        pub fn key(&self) -> &K {
            &self.key
        }
    }

    pub struct Iter<'a, K, V> {
        map_entries: &'a [MaybeUninit<(K, V)>; MAP_CAP],
        len: usize,
        next: usize,
    }

    impl<'a, K, V> Iterator for Iter<'a, K, V> {
        type Item = (&'a K, &'a V);

        fn next(&mut self) -> Option<Self::Item> {
            if self.next < MAP_CAP && self.next < self.len {
                let e = unsafe { &*self.map_entries[self.next].as_ptr() };
                self.next += 1;
                Some((&e.0, &e.1))
            } else {
                // pin the cursor so that exhaustion is a constant for a bounded model checker
                self.next = MAP_CAP;
                None
            }
        }

        fn size_hint(&self) -> (usize, Option<usize>) {
            let r = if self.next < self.len { self.len - self.next } else { 0 };
            (r, Some(r))
        }
    }

    pub struct Values<'a, K, V> {
        inner: Iter<'a, K, V>,
    }

    impl<'a, K, V> Iterator for Values<'a, K, V> {
        type Item = &'a V;

        fn next(&mut self) -> Option<Self::Item> {
            match self.inner.next() {
                Some(e) => Some(e.1),
                None => None,
            }
        }

        fn size_hint(&self) -> (usize, Option<usize>) {
            self.inner.size_hint()
        }
    }

    pub struct Keys<'a, K, V> {
        inner: Iter<'a, K, V>,
    }

    impl<'a, K, V> Iterator for Keys<'a, K, V> {
        type Item = &'a K;

        fn next(&mut self) -> Option<Self::Item> {
            match self.inner.next() {
                Some(e) => Some(e.0),
                None => None,
            }
        }
    }

    impl<'a, K, V, S> IntoIterator for &'a HashMap<K, V, S> {
        type Item = (&'a K, &'a V);
        type IntoIter = Iter<'a, K, V>;

        fn into_iter(self) -> Iter<'a, K, V> {
            self.iter()
        }
    }

    impl<K: core::fmt::Debug, V: core::fmt::Debug, S> core::fmt::Debug for HashMap<K, V, S> {
        fn fmt(&self, f: &mut core::fmt::Formatter<'_>) -> core::fmt::Result {
            f.debug_map().entries(self.iter()).finish()
        }
    }
}

pub mod hash_set {
    use super::*;

    pub struct HashSet<T, S = DefaultHashBuilder> {
        pub(crate) items: [MaybeUninit<T>; SET_CAP],
        pub(crate) len: usize,
        pub(crate) hash_builder: S,
    }

    impl<T, S: Default> Default for HashSet<T, S> {
        fn default() -> Self {
            Self::with_hasher(S::default())
        }
    }

    impl<T, S> Drop for HashSet<T, S> {
        fn drop(&mut self) {
            let mut i = 0;
            while i < SET_CAP {
                if i < self.len {
                    unsafe { core::ptr::drop_in_place(self.items[i].as_mut_ptr()) };
                }
                i += 1;
            }
        }
    }

    impl<T, S> HashSet<T, S> {
        pub fn with_hasher(hash_builder: S) -> Self {
            HashSet {
                items: [const { MaybeUninit::uninit() }; SET_CAP],
                len: 0,
                hash_builder,
            }
        }

        pub fn with_capacity_and_hasher(_capacity: usize, hash_builder: S) -> Self {
            Self::with_hasher(hash_builder)
        }

        pub fn len(&self) -> usize {
            self.len
        }

        pub fn is_empty(&self) -> bool {
            self.len == 0
        }
    }

    impl<T: Eq, S: BuildHasher> HashSet<T, S> {
        pub fn contains<Q: ?Sized + Equivalent<T>>(&self, value: &Q) -> bool {
            let mut found = false;
            let mut i = 0;
            while i < SET_CAP {
                if i < self.len && value.equivalent(unsafe { &*self.items[i].as_ptr() }) {
                    found = true;
                }
                i += 1;
            }
            found
        }

        /// Returns whether the value was newly inserted.
        pub fn insert(&mut self, value: T) -> bool {
            if self.contains(&value) {
                false
            } else {
                if self.len >= SET_CAP {
                    capacity_exceeded();
                }
                self.items[self.len] = MaybeUninit::new(value);
                self.len += 1;
                true
            }
        }
    }

    impl<T: Eq, S: BuildHasher + Default> FromIterator<T> for HashSet<T, S> {
        fn from_iter<I: IntoIterator<Item = T>>(iter: I) -> Self {
            let mut set = HashSet::with_hasher(S::default());
            for x in iter {
                set.insert(x);
            }
            set
        }
    }
}

pub use hash_map::HashMap;
pub use hash_set::HashSet;
