// Native replay for engine E3d (smt/entrybits.py).  For registries of 1, 2, 3, 4, 8 and 9 components,
// every component set `mask` and every component `k`: build an entity holding exactly `mask`
// through the public API, `add` / `remove` component `k` through `World::entry`, and compare the
// resulting component set with `mask | {k}` resp. `mask \ {k}`.  The runner copies this file into
// the scratch copy's tests/ directory and runs it with `cargo test --test entrybits_replay` when E3d
// reports a counterexample whose registry length is one of these; a failing scenario is the replayed
// violation.
use brood::{entity, query::{filter, Views}, Query, Registry, World};

macro_rules! components {
    ($($C:ident),*) => { $( #[derive(Clone, Debug, Default, PartialEq)] struct $C(u8); )* };
}
components!(C0, C1, C2, C3, C4, C5, C6, C7, C8);

macro_rules! scenario {
    ($name:ident, $n:expr, [$($C:ident),*]) => {
        #[test]
        fn $name() {
            type R = Registry!($($C),*);
            fn present(world: &mut World<R>, id: brood::entity::Identifier) -> u32 {
                let mut mask = 0u32;
                let mut k = 0;
                $(
                    if world.entry(id).unwrap().query(Query::<Views!(&$C), filter::None>::new()).is_some() {
                        mask |= 1 << k;
                    }
                    k += 1;
                )*
                let _ = k;
                mask
            }
            fn add(world: &mut World<R>, id: brood::entity::Identifier, which: u32) {
                let mut k = 0;
                $(
                    if k == which {
                        world.entry(id).unwrap().add($C(k as u8 + 1));
                    }
                    k += 1;
                )*
                let _ = k;
            }
            fn remove(world: &mut World<R>, id: brood::entity::Identifier, which: u32) {
                let mut k = 0;
                $(
                    if k == which {
                        world.entry(id).unwrap().remove::<$C, _>();
                    }
                    k += 1;
                )*
                let _ = k;
            }
            let n: u32 = $n;
            for mask in 0..(1u32 << n) {
                for which in 0..n {
                    for do_add in [true, false] {
                        let mut world = World::<R>::new();
                        let id = world.insert(entity!());
                        for k in 0..n {
                            if mask & (1 << k) != 0 {
                                add(&mut world, id, k);
                            }
                        }
                        assert_eq!(present(&mut world, id), mask, "building the component set {mask:#b} of {n}");
                        if do_add {
                            add(&mut world, id, which);
                            assert_eq!(present(&mut world, id), mask | (1 << which), "add component {which} to set {mask:#b} of {n}");
                        } else {
                            remove(&mut world, id, which);
                            assert_eq!(present(&mut world, id), mask & !(1 << which), "remove component {which} from set {mask:#b} of {n}");
                        }
                        assert_eq!(world.len(), 1);
                        assert!(world.contains(id));
                    }
                }
            }
        }
    };
}

scenario!(len1, 1, [C0]);
scenario!(len2, 2, [C0, C1]);
scenario!(len3, 3, [C0, C1, C2]);
scenario!(len4, 4, [C0, C1, C2, C3]);
scenario!(len8, 8, [C0, C1, C2, C3, C4, C5, C6, C7]);
scenario!(len9, 9, [C0, C1, C2, C3, C4, C5, C6, C7, C8]);
