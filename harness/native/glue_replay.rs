// Native replay scenarios for engine E3c (smt/glue.py): one public-API scenario per glue function and
// path.  After every operation the world must hold exactly the expected live identifiers:
// `len()`, `contains()` and the number of rows a query yields must agree.
// The runner copies this file into the scratch copy's tests/ directory and runs it with
// `cargo test --test glue_replay` when E3c reports a counterexample; a failing scenario is the
// replayed violation.
use brood::{entities, entity, query::{filter, result, Views}, Query, Registry, World};

#[derive(Clone, Debug, PartialEq)]
struct A(u32);
#[derive(Clone, Debug, PartialEq)]
struct B(u8);
type R = Registry!(A, B);

fn audit(world: &mut World<R>, live: &[brood::entity::Identifier], dead: &[brood::entity::Identifier]) {
    assert_eq!(world.len(), live.len(), "len() counts exactly the stored entities");
    assert_eq!(world.is_empty(), live.is_empty());
    for id in live {
        assert!(world.contains(*id), "a stored entity's identifier is accepted");
    }
    for id in dead {
        assert!(!world.contains(*id), "a removed entity's identifier is not accepted");
    }
    let mut rows = 0;
    for result!(id) in world.query(Query::<Views!(brood::entity::Identifier), filter::None>::new()).iter {
        assert!(live.contains(&id), "every stored row belongs to a live identifier");
        rows += 1;
    }
    assert_eq!(rows, live.len(), "stored rows == live identifiers");
}

#[test]
fn insert_path() {
    let mut w = World::<R>::new();
    let a = w.insert(entity!(A(1), B(2)));
    audit(&mut w, &[a], &[]);
    let b = w.insert(entity!(A(3)));
    audit(&mut w, &[a, b], &[]);
}

#[test]
fn extend_path() {
    let mut w = World::<R>::new();
    let ids = w.extend(entities!((A(1), B(2)); 3));
    audit(&mut w, &ids, &[]);
    let none = w.extend(entities!((A(1)); 0));
    assert!(none.is_empty());
    audit(&mut w, &ids, &[]);
}

#[test]
fn remove_live_and_stale_paths() {
    let mut w = World::<R>::new();
    let ids = w.extend(entities!((A(1), B(2)); 3));
    w.remove(ids[0]);
    audit(&mut w, &[ids[1], ids[2]], &[ids[0]]);
    w.remove(ids[0]); // stale: no-op
    audit(&mut w, &[ids[1], ids[2]], &[ids[0]]);
    let again = w.insert(entity!(A(9), B(9))); // reuses the slot
    audit(&mut w, &[ids[1], ids[2], again], &[ids[0]]);
    w.remove(ids[2]);
    w.remove(ids[1]);
    w.remove(again);
    audit(&mut w, &[], &[ids[0], ids[1], ids[2], again]);
}

#[test]
fn clear_path() {
    let mut w = World::<R>::new();
    let ids = w.extend(entities!((A(1), B(2)); 2));
    let c = w.insert(entity!(B(5)));
    w.clear();
    audit(&mut w, &[], &[ids[0], ids[1], c]);
    let d = w.insert(entity!(A(7)));
    audit(&mut w, &[d], &[ids[0], ids[1], c]);
}

fn a_of(world: &mut World<R>, id: brood::entity::Identifier) -> u32 {
    let mut entry = world.entry(id).expect("live identifier has an entry");
    let result!(a) = entry.query(Query::<Views!(&A)>::new()).expect("entity has A");
    a.0
}

#[test]
fn entry_moves_keep_every_identifier_on_its_own_entity() {
    let mut w = World::<R>::new();
    let x = w.insert(entity!(A(10)));
    let y = w.insert(entity!(A(20)));
    let z = w.insert(entity!(A(30), B(3)));
    w.entry(x).unwrap().add(B(1)); // x moves next to z
    assert_eq!((a_of(&mut w, x), a_of(&mut w, y), a_of(&mut w, z)), (10, 20, 30), "after Entry::add every identifier still names its own entity");
    w.entry(z).unwrap().remove::<B, _>(); // z moves next to y
    assert_eq!((a_of(&mut w, x), a_of(&mut w, y), a_of(&mut w, z)), (10, 20, 30), "after Entry::remove every identifier still names its own entity");
    w.remove(x);
    audit(&mut w, &[y, z], &[x]);
    assert_eq!((a_of(&mut w, y), a_of(&mut w, z)), (20, 30), "removing a moved entity removes that entity and no other");
}

#[test]
fn entry_add_and_remove_paths() {
    let mut w = World::<R>::new();
    let ids = w.extend(entities!((A(1)); 3));
    w.entry(ids[0]).unwrap().add(B(4)); // absent -> shape change
    audit(&mut w, &ids, &[]);
    w.entry(ids[0]).unwrap().add(B(5)); // present -> overwrite
    audit(&mut w, &ids, &[]);
    w.entry(ids[0]).unwrap().remove::<B, _>(); // present -> shape change
    audit(&mut w, &ids, &[]);
    w.entry(ids[1]).unwrap().remove::<B, _>(); // absent -> no-op
    audit(&mut w, &ids, &[]);
    w.remove(ids[1]);
    audit(&mut w, &[ids[0], ids[2]], &[ids[1]]);
}
