// Root of the in-crate verification harnesses.
//
// This file is `include!`d into `brood::verif` (src/lib.rs, `--cfg brood_verif`), so everything
// below sees `pub(crate)` items of brood.  Every harness is a `#[kani::proof]`; nothing here is
// compiled unless the crate is built by `cargo kani` (cfg(kani)) with the guard on.

// `assert!` in a `no_std` crate is core's macro, whose message Kani cannot recover; every oracle
// goes through `kani::assert` so that the failing label is reported.
#[cfg(kani)]
macro_rules! vassert {
    ($c:expr, $m:literal) => {
        kani::assert($c, $m)
    };
}

#[cfg(kani)]
pub mod common {
    include!(concat!(env!("BROOD_VERIF_DIR"), "/harness/common.rs"));
}

#[cfg(kani)]
pub mod alloc_steps {
    include!(concat!(env!("BROOD_VERIF_DIR"), "/harness/alloc_steps.rs"));
}


#[cfg(kani)]
pub mod arch {
    include!(concat!(env!("BROOD_VERIF_DIR"), "/harness/arch.rs"));
}

#[cfg(kani)]
pub mod arch_steps {
    include!(concat!(env!("BROOD_VERIF_DIR"), "/harness/arch_steps.rs"));
}

#[cfg(kani)]
pub mod world {
    include!(concat!(env!("BROOD_VERIF_DIR"), "/harness/world.rs"));
}

#[cfg(kani)]
pub mod query {
    include!(concat!(env!("BROOD_VERIF_DIR"), "/harness/query.rs"));
}

#[cfg(kani)]
pub mod c18 {
    include!(concat!(env!("BROOD_VERIF_DIR"), "/harness/c18.rs"));
}

#[cfg(kani)]
pub mod res {
    include!(concat!(env!("BROOD_VERIF_DIR"), "/harness/res.rs"));
}

#[cfg(kani)]
pub mod serde_backend {
    include!(concat!(env!("BROOD_VERIF_DIR"), "/harness/serde_backend.rs"));
}

#[cfg(kani)]
pub mod serde_h {
    include!(concat!(env!("BROOD_VERIF_DIR"), "/harness/serde_h.rs"));
}

#[cfg(kani)]
pub mod claims {
    include!(concat!(env!("BROOD_VERIF_DIR"), "/harness/claims.rs"));
}

#[cfg(kani)]
pub mod stagepair {
    include!(concat!(env!("BROOD_VERIF_DIR"), "/harness/stagepair.rs"));
}


#[cfg(kani)]
pub mod sched {
    include!(concat!(env!("BROOD_VERIF_DIR"), "/harness/sched.rs"));
}

#[cfg(kani)]
pub mod bitwalk {
    include!(concat!(env!("BROOD_VERIF_DIR"), "/harness/bitwalk.rs"));
}

#[cfg(kani)]
pub mod canon {
    include!(concat!(env!("BROOD_VERIF_DIR"), "/harness/canon.rs"));
}
