// C07 / C08 / C12 (run-time half): `World::run_schedule` on tiny worlds, with `rayon::join`
// replaced by a sequential executor that runs its two closures in *either* order (one symbolic bit
// per fork).  The solver thereby covers every task order the fork/join structure admits, at task
// granularity.  Systems are order-sensitive on resources (x*2, x+1, ...), so any reordering of
// conflicting tasks changes the result; per-task run counters show "exactly once".
//
// The systems do not iterate their query results (the result iterator over a table does not fit in
// memory, see query.rs); their declared component views still drive the archetype claims, which is
// what the early-start logic (`run_add_ons`, `has_run`) depends on.

use super::{
    arch::*,
    common::*,
    query::any_table2_with,
};
use crate::{
    entity::allocator::Allocator,
    query::{
        filter,
        filter::{
            Has,
            Not,
        },
        Result,
        Views,
    },
    registry,
    system::{
        schedule::task,
        System,
    },
    world::World,
};

/// Sequential stand-in for `rayon::join`: both closures run to completion, in an order chosen by
/// the solver.
pub fn seq_join<A, B, RA, RB>(oper_a: A, oper_b: B) -> (RA, RB)
where
    A: FnOnce() -> RA + Send,
    B: FnOnce() -> RB + Send,
    RA: Send,
    RB: Send,
{
    if kani::any() {
        let ra = oper_a();
        let rb = oper_b();
        (ra, rb)
    } else {
        let rb = oper_b();
        let ra = oper_a();
        (ra, rb)
    }
}

pub static mut RUNS: [u8; 4] = [0; 4];

fn ran(i: usize) {
    // SAFETY: harnesses are single threaded.
    unsafe { RUNS[i] += 1 };
}

fn runs(i: usize) -> u8 {
    // SAFETY: harnesses are single threaded.
    unsafe { RUNS[i] }
}

type Res = crate::Resources!(u32, u16);

macro_rules! system {
    ($name:ident, slot = $slot:expr, views = ($($V:ty),*), filter = $F:ty, resources = ($($RV:ty),*), |$($rb:ident),*| $body:block) => {
        pub struct $name;
        impl System for $name {
            type Views<'a> = Views!($($V),*);
            type Filter = $F;
            type ResourceViews<'a> = Views!($($RV),*);
            type EntryViews<'a> = Views!();

            fn run<'a, R, S, I, E>(
                &mut self,
                query_results: Result<R, S, I, Self::ResourceViews<'a>, Self::EntryViews<'a>, E>,
            ) where
                R: registry::Registry,
                I: Iterator<Item = Self::Views<'a>>,
            {
                ran($slot);
                let crate::query::result!($($rb),*) = query_results.resources;
                $body
            }
        }
    };
}

// order-sensitive updates of the u32 resource
system!(DoubleR32, slot = 0, views = (), filter = filter::None, resources = (&'a mut u32), |r| { *r = r.wrapping_mul(2); });
system!(IncR32, slot = 1, views = (), filter = filter::None, resources = (&'a mut u32), |r| { *r = r.wrapping_add(1); });
system!(IncR16, slot = 2, views = (), filter = filter::None, resources = (&'a mut u16), |r| { *r = r.wrapping_add(1); });
system!(ReadR32IntoR16, slot = 3, views = (), filter = filter::None, resources = (&'a u32, &'a mut u16), |a, b| { *b = *a as u16; });
// component-claiming systems (bodies touch resources only)
system!(WriteA_DoubleR32, slot = 0, views = (&'a mut A), filter = filter::None, resources = (&'a mut u32), |r| { *r = r.wrapping_mul(2); });
system!(WriteA_NoB_IncR16, slot = 1, views = (&'a mut A), filter = Not<Has<B>>, resources = (&'a mut u16), |r| { *r = r.wrapping_add(1); });
system!(WriteA_IncR16, slot = 1, views = (&'a mut A), filter = filter::None, resources = (&'a mut u16), |r| { *r = r.wrapping_add(1); });
system!(WriteA_NoB_IncR32, slot = 1, views = (&'a mut A), filter = Not<Has<B>>, resources = (&'a mut u32), |r| { *r = r.wrapping_add(1); });

fn world_ab(v32: u32, v16: u16) -> World<RAB, Res> {
    // one archetype {A, B} with one row, one empty archetype {A}
    let (archetypes, _ids1, _ids2) = any_table2_with::<RAB, 1, 0>(&[true, true], &[true, false], true);
    World::<RAB, Res>::verif_from_raw_parts(archetypes, Allocator::new(), 1, crate::resources!(v32, v16))
}

macro_rules! schedule_harness {
    ($name:ident, world = $W:ident, tasks = ($($T:expr),*), expect = |$v32:ident, $v16:ident| ($e32:expr, $e16:expr), ran = [$($slot:expr),*]) => {
        #[kani::proof]
        #[kani::unwind(12)]
        #[kani::stub(rayon_core::join::join, seq_join)]
        pub fn $name() {
            let $v32: u32 = kani::any();
            let $v16: u16 = kani::any();
            let mut w = schedule_harness!(@world $W, $v32, $v16);
            let mut schedule = crate::system::schedule::schedule!($(task::System($T)),*);
            w.run_schedule(&mut schedule);
            vassert!(*w.get::<u32, _>() == $e32, "the u32 resource ends as if the tasks had run one by one in declared order");
            vassert!(*w.get::<u16, _>() == $e16, "the u16 resource ends as if the tasks had run one by one in declared order");
            $( vassert!(runs($slot) == 1, "every task of the schedule runs exactly once"); )*
            kani::cover!(true, "reached end");
            core::mem::forget(w);
        }
    };
    (@world empty, $v32:ident, $v16:ident) => { World::<RAB, Res>::with_resources(crate::resources!($v32, $v16)) };
    (@world ab, $v32:ident, $v16:ident) => { world_ab($v32, $v16) };
}

// (a) two conflicting tasks (same resource written): two stages, order preserved
schedule_harness!(sched_q_conflict_resource, world = empty, tasks = (DoubleR32, IncR32),
    expect = |a, b| (a.wrapping_mul(2).wrapping_add(1), b), ran = [0, 1]);
// (b) two independent tasks: one stage, both orders of the fork give the same result
schedule_harness!(sched_q_independent_resources, world = empty, tasks = (DoubleR32, IncR16),
    expect = |a, b| (a.wrapping_mul(2), b.wrapping_add(1)), ran = [0, 2]);
// read-after-write across tasks: the reader must see the writer's value
schedule_harness!(sched_t_write_then_read, world = empty, tasks = (DoubleR32, ReadR32IntoR16, IncR32),
    expect = |a, _b| (a.wrapping_mul(2).wrapping_add(1), a.wrapping_mul(2) as u16), ran = [0, 3, 1]);
// Measured: the three instances over a world with archetypes ((c) a statically conflicting but
// dynamically disjoint task started early through `run_add_ons`, (d) refused because of components,
// (e) refused because of a resource) do not fit in 20 GB: `query_archetype_claims` iterates the
// table and the claim map on every stage, which is symbolic for the executor.  The early-start path
// (`run_add_ons`, `has_run`) is therefore outside the claim; its ingredients are checked separately
// (claim algebra and per-view claims in claims.rs, filters in query.rs).
