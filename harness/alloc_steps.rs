// One-step inductive harnesses over `entity::Allocator` (C02, C13; memory checks feed C05).
//
// Pre-state: AllocInv(N, F) with symbolic contents.  One real operation with symbolic
// arguments.  Post: AllocInv re-established, effect and frame against the array snapshot,
// and the verdict on an arbitrary probe identifier (any index, any generation).

use super::common::*;
use crate::{
    entity,
    entity::allocator::{
        Allocator,
        Location,
        Locations,
    },
};
use alloc::{
    vec,
    vec::Vec,
};

fn in_prefix<const F: usize>(free: &[usize; F], upto: usize, x: usize) -> bool {
    let mut j = 0;
    let mut found = false;
    while j < F {
        if j < upto && free[j] == x {
            found = true;
        }
        j += 1;
    }
    found
}

macro_rules! alloc_batch_step {
    ($name:ident, $N:expr, $F:expr, $K:expr) => {
        #[kani::proof]
        #[kani::unwind(8)]
        pub fn $name() {
            const N: usize = $N;
            const F: usize = $F;
            const K: usize = $K;
            const REUSED: usize = if F < K { F } else { K };
            let id0 = ident::<RAB>(vec![3]);
            let id1 = ident::<RAB>(vec![1]);
            // SAFETY: the buffers outlive every use of the references below.
            let refs = unsafe { [id0.as_ref(), id1.as_ref()] };
            let (mut a, free) = any_allocator::<RAB, N, F>(&refs);
            let before = snap_alloc::<RAB, N>(&a);
            // The first row index is the target archetype's length: part of the concrete shape
            // (a symbolic `start` makes `Vec::with_capacity(locations.len())` a symbolic
            // allocation size).
            let start: usize = 1;

            let probe = entity::Identifier::new(kani::any(), kani::any());
            let probe_loc_before = a.get(probe);
            let probe_live_before = a.is_active(probe);
            vassert!(
                probe_live_before == probe_loc_before.is_some(),
                "get and is_active agree (pre)"
            );

            let ids = a.allocate_batch(Locations::new(start..start + K, refs[1]));

            // effect
            vassert!(ids.len() == K, "one identifier per batch row");
            vassert!(a.slots.len() == N + (K - REUSED), "slot table grows by the shortfall only");
            let mut j = 0;
            while j < K {
                if j < REUSED {
                    vassert!(ids[j].index == free[j], "reuse follows free-list order");
                    vassert!(
                        ids[j].generation == before[free[j]].generation + 1,
                        "reused slot gets a generation above every issued one"
                    );
                } else {
                    vassert!(ids[j].index == N + (j - REUSED), "fresh slots are appended in order");
                    vassert!(ids[j].generation == 0, "fresh slot starts at generation 0");
                }
                match a.get(ids[j]) {
                    Some(l) => {
                        vassert!(l.index == start + j, "j-th identifier resolves to j-th batch row");
                        vassert!(
                            l.identifier.verif_pointer() == refs[1].verif_pointer(),
                            "returned identifier resolves into the target archetype"
                        );
                    }
                    None => vassert!(false, "returned identifier must resolve"),
                }
                vassert!(a.is_active(ids[j]), "returned identifier is active");
                let mut k = 0;
                while k < j {
                    vassert!(ids[k] != ids[j], "returned identifiers pairwise distinct");
                    k += 1;
                }
                j += 1;
            }

            // free list: exactly the unused suffix, same order
            vassert!(a.free.len() == F - REUSED, "no free slot lost or duplicated");
            let mut j = 0;
            while j < F - REUSED {
                vassert!(a.free[j] == free[REUSED + j], "free-list order preserved");
                j += 1;
            }
            vassert!(alloc_inv(&a), "AllocInv after allocate_batch");

            // frame
            let mut i = 0;
            while i < N {
                if !in_prefix(&free, REUSED, i) {
                    let s = snap_slot(&a.slots[i]);
                    vassert!(s.generation == before[i].generation, "frame: generation");
                    vassert!(s.active == before[i].active, "frame: liveness");
                    vassert!(s.loc_ptr == before[i].loc_ptr, "frame: archetype");
                    vassert!(s.loc_index == before[i].loc_index, "frame: row");
                }
                i += 1;
            }

            // probe: stability and death
            let mut returned = false;
            let mut j = 0;
            while j < K {
                if ids[j] == probe {
                    returned = true;
                }
                j += 1;
            }
            let probe_loc_after = a.get(probe);
            vassert!(
                a.is_active(probe) == probe_loc_after.is_some(),
                "get and is_active agree (post)"
            );
            if let Some(l0) = probe_loc_before {
                vassert!(!returned, "a live identifier is never issued again");
                match probe_loc_after {
                    Some(l1) => vassert!(
                        l1.index == l0.index
                            && l1.identifier.verif_pointer() == l0.identifier.verif_pointer(),
                        "live identifier keeps resolving to the same place"
                    ),
                    None => vassert!(false, "live identifier stopped resolving"),
                }
            } else if !returned {
                vassert!(probe_loc_after.is_none(), "dead/never-issued identifier stays dead");
            }

            kani::cover!(true, "reached end");
            kani::cover!(probe_live_before || N == F, "probe was live");
            kani::cover!(returned || K == 0, "probe is one of the returned identifiers");
        }
    };
}

// N slots, F free, batch K: all three relations K <, =, > F.
alloc_batch_step!(allocb_q_n0_f0_k0, 0, 0, 0);
alloc_batch_step!(allocb_q_n0_f0_k2, 0, 0, 2);
alloc_batch_step!(allocb_t_n2_f0_k1, 2, 0, 1);
alloc_batch_step!(allocb_q_n2_f1_k0, 2, 1, 0);
alloc_batch_step!(allocb_q_n2_f1_k1, 2, 1, 1);
alloc_batch_step!(allocb_q_n2_f1_k2, 2, 1, 2);
alloc_batch_step!(allocb_q_n3_f2_k1, 3, 2, 1);
alloc_batch_step!(allocb_t_n3_f2_k2, 3, 2, 2);
alloc_batch_step!(allocb_t_n3_f2_k3, 3, 2, 3);
alloc_batch_step!(allocb_t_n3_f3_k1, 3, 3, 1);

alloc_batch_step!(allocb_t_n4_f4_k3, 4, 4, 3);
alloc_batch_step!(allocb_t_n4_f2_k3, 4, 2, 3);
alloc_batch_step!(allocb_t_n4_f3_k0, 4, 3, 0);

// ------------------------------------------------------------------------------------------
// allocate (single): World::insert's allocator half.
// ------------------------------------------------------------------------------------------

macro_rules! alloc_one_step {
    ($name:ident, $N:expr, $F:expr) => {
        #[kani::proof]
        #[kani::unwind(8)]
        pub fn $name() {
            const N: usize = $N;
            const F: usize = $F;
            let id0 = ident::<RAB>(vec![3]);
            let id1 = ident::<RAB>(vec![1]);
            // SAFETY: the buffers outlive every use of the references below.
            let refs = unsafe { [id0.as_ref(), id1.as_ref()] };
            let (mut a, free) = any_allocator::<RAB, N, F>(&refs);
            let before = snap_alloc::<RAB, N>(&a);
            let row: usize = kani::any();

            let probe = entity::Identifier::new(kani::any(), kani::any());
            let probe_loc_before = a.get(probe);

            let id = a.allocate(Location::new(refs[1], row));

            if F > 0 {
                vassert!(id.index == free[0], "reuse takes the front of the free list");
                let mut i = 0;
                while i < N {
                    if i == free[0] {
                        vassert!(
                            id.generation == before[i].generation + 1,
                            "reused slot gets a generation above every issued one"
                        );
                    }
                    i += 1;
                }
                vassert!(a.slots.len() == N, "no new slot while a free one exists");
                vassert!(a.free.len() == F - 1, "exactly one free slot consumed");
                let mut j = 0;
                while j + 1 < F {
                    vassert!(a.free[j] == free[j + 1], "free-list order preserved");
                    j += 1;
                }
            } else {
                vassert!(id.index == N && id.generation == 0, "fresh slot appended at generation 0");
                vassert!(a.slots.len() == N + 1, "slot table grows by one");
                vassert!(a.free.len() == 0, "free list still empty");
            }
            match a.get(id) {
                Some(l) => vassert!(
                    l.index == row && l.identifier.verif_pointer() == refs[1].verif_pointer(),
                    "returned identifier resolves to the given location"
                ),
                None => vassert!(false, "returned identifier must resolve"),
            }
            vassert!(a.is_active(id), "returned identifier is active");
            vassert!(alloc_inv(&a), "AllocInv after allocate");

            let mut i = 0;
            while i < N {
                if !(F > 0 && in_prefix(&free, 1, i)) {
                    let s = snap_slot(&a.slots[i]);
                    vassert!(
                        s.generation == before[i].generation
                            && s.active == before[i].active
                            && s.loc_ptr == before[i].loc_ptr
                            && s.loc_index == before[i].loc_index,
                        "frame: other slots untouched"
                    );
                }
                i += 1;
            }

            let probe_loc_after = a.get(probe);
            vassert!(
                a.is_active(probe) == probe_loc_after.is_some(),
                "get and is_active agree (post)"
            );
            if let Some(l0) = probe_loc_before {
                vassert!(probe != id, "a live identifier is never issued again");
                match probe_loc_after {
                    Some(l1) => vassert!(
                        l1.index == l0.index
                            && l1.identifier.verif_pointer() == l0.identifier.verif_pointer(),
                        "live identifier keeps resolving to the same place"
                    ),
                    None => vassert!(false, "live identifier stopped resolving"),
                }
            } else if probe != id {
                vassert!(probe_loc_after.is_none(), "dead/never-issued identifier stays dead");
            }
            kani::cover!(true, "reached end");
            kani::cover!(probe_loc_before.is_some() || N == F, "probe was live");
            kani::cover!(probe == id, "probe is the returned identifier");
        }
    };
}

alloc_one_step!(alloc1_q_n0_f0, 0, 0);
alloc_one_step!(alloc1_q_n2_f0, 2, 0);
alloc_one_step!(alloc1_q_n3_f2, 3, 2);
alloc_one_step!(alloc1_t_n3_f1, 3, 1);
alloc_one_step!(alloc1_t_n3_f3, 3, 3);
alloc_one_step!(alloc1_t_n4_f2, 4, 2);

// ------------------------------------------------------------------------------------------
// free_unchecked: World::remove's allocator half.  Target: any *live* identifier.
// ------------------------------------------------------------------------------------------

macro_rules! alloc_free_step {
    ($name:ident, $N:expr, $F:expr) => {
        #[kani::proof]
        #[kani::unwind(8)]
        pub fn $name() {
            const N: usize = $N;
            const F: usize = $F;
            let id0 = ident::<RAB>(vec![3]);
            let id1 = ident::<RAB>(vec![1]);
            // SAFETY: the buffers outlive every use of the references below.
            let refs = unsafe { [id0.as_ref(), id1.as_ref()] };
            let (mut a, free) = any_allocator::<RAB, N, F>(&refs);
            let before = snap_alloc::<RAB, N>(&a);

            let target = entity::Identifier::new(kani::any(), kani::any());
            kani::assume(a.is_active(target)); // documented precondition of free_unchecked
            let probe = entity::Identifier::new(kani::any(), kani::any());
            let probe_loc_before = a.get(probe);

            // SAFETY: target is live.
            unsafe { a.free_unchecked(target) };

            vassert!(a.get(target).is_none() && !a.is_active(target), "freed identifier is dead");
            vassert!(a.slots.len() == N, "slots are never removed");
            vassert!(a.free.len() == F + 1, "exactly one slot released");
            vassert!(a.free[F] == target.index, "released slot goes to the back of the free list");
            let mut j = 0;
            while j < F {
                vassert!(a.free[j] == free[j], "older free entries keep their order");
                j += 1;
            }
            vassert!(alloc_inv(&a), "AllocInv after free_unchecked");
            let mut i = 0;
            while i < N {
                let s = snap_slot(&a.slots[i]);
                vassert!(s.generation == before[i].generation, "generations change only on activation");
                if i != target.index {
                    vassert!(
                        s.active == before[i].active
                            && s.loc_ptr == before[i].loc_ptr
                            && s.loc_index == before[i].loc_index,
                        "frame: other slots untouched"
                    );
                }
                i += 1;
            }
            let probe_loc_after = a.get(probe);
            if probe == target {
                vassert!(probe_loc_after.is_none(), "target is dead");
            } else if let Some(l0) = probe_loc_before {
                match probe_loc_after {
                    Some(l1) => vassert!(
                        l1.index == l0.index
                            && l1.identifier.verif_pointer() == l0.identifier.verif_pointer(),
                        "other live identifiers keep resolving"
                    ),
                    None => vassert!(false, "another live identifier stopped resolving"),
                }
            } else {
                vassert!(probe_loc_after.is_none(), "dead identifiers stay dead");
            }
            kani::cover!(true, "reached end");
            kani::cover!(probe_loc_before.is_some() && probe != target || N - F < 2, "another live probe");
        }
    };
}

alloc_free_step!(allocf_q_n1_f0, 1, 0);
alloc_free_step!(allocf_q_n3_f1, 3, 1);
alloc_free_step!(allocf_t_n3_f2, 3, 2);
alloc_free_step!(allocf_t_n4_f0, 4, 0);
alloc_free_step!(allocf_t_n4_f2, 4, 2);

// ------------------------------------------------------------------------------------------
// Location updates and lookups against the snapshot model.
// ------------------------------------------------------------------------------------------

macro_rules! alloc_modify_step {
    ($name:ident, $N:expr, $F:expr) => {
        #[kani::proof]
        #[kani::unwind(8)]
        pub fn $name() {
            const N: usize = $N;
            const F: usize = $F;
            let id0 = ident::<RAB>(vec![3]);
            let id1 = ident::<RAB>(vec![1]);
            // SAFETY: the buffers outlive every use of the references below.
            let refs = unsafe { [id0.as_ref(), id1.as_ref()] };
            let (mut a, _free) = any_allocator::<RAB, N, F>(&refs);
            let before = snap_alloc::<RAB, N>(&a);

            // lookups = model
            let probe = entity::Identifier::new(kani::any(), kani::any());
            let mut model_live = false;
            let mut i = 0;
            while i < N {
                if probe.index == i && before[i].active && before[i].generation == probe.generation {
                    model_live = true;
                    match a.get(probe) {
                        Some(l) => vassert!(
                            l.index == before[i].loc_index && l.identifier.verif_pointer() == before[i].loc_ptr,
                            "get returns the slot's own location"
                        ),
                        None => vassert!(false, "get misses a live identifier"),
                    }
                }
                i += 1;
            }
            vassert!(a.is_active(probe) == model_live, "is_active = model");
            vassert!(a.get(probe).is_some() == model_live, "get = model");

            let target = entity::Identifier::new(kani::any(), kani::any());
            kani::assume(a.is_active(target));
            let new_index: usize = kani::any();
            let whole: bool = kani::any();
            if whole {
                // SAFETY: target is live.
                unsafe { a.modify_location_unchecked(target, Location::new(refs[0], new_index)) };
            } else {
                // SAFETY: target is live.
                unsafe { a.modify_location_index_unchecked(target, new_index) };
            }
            let mut i = 0;
            while i < N {
                let s = snap_slot(&a.slots[i]);
                if i == target.index {
                    vassert!(s.active && s.generation == before[i].generation, "target stays live, same generation");
                    vassert!(s.loc_index == new_index, "target row updated");
                    if whole {
                        vassert!(s.loc_ptr == refs[0].verif_pointer(), "target archetype updated");
                    } else {
                        vassert!(s.loc_ptr == before[i].loc_ptr, "index-only update keeps the archetype");
                    }
                } else {
                    vassert!(
                        s.generation == before[i].generation
                            && s.active == before[i].active
                            && s.loc_ptr == before[i].loc_ptr
                            && s.loc_index == before[i].loc_index,
                        "frame: other slots untouched"
                    );
                }
                i += 1;
            }
            vassert!(alloc_inv(&a), "AllocInv after location update");
            kani::cover!(whole, "whole-location update");
            kani::cover!(!whole, "index-only update");
            kani::cover!(model_live, "probe live");
            kani::cover!(!model_live && probe.index < N, "probe stale or inactive");
        }
    };
}

alloc_modify_step!(allocm_q_n3_f1, 3, 1);
alloc_modify_step!(allocm_t_n4_f2, 4, 2);

// ------------------------------------------------------------------------------------------
// Allocator::clone / clone_from with an old->new archetype identifier map (World::clone's
// allocator half; hashbrown model for the map).
// ------------------------------------------------------------------------------------------

fn mapped(p: *const u8, old: &[*const u8; 2], new: &[*const u8; 2]) -> *const u8 {
    if p == old[0] {
        new[0]
    } else if p == old[1] {
        new[1]
    } else {
        core::ptr::null()
    }
}

macro_rules! alloc_clone_step {
    ($name:ident, src = ($N:expr, $F:expr), dst = ($DN:expr, $DF:expr), from = $FROM:expr) => {
        #[kani::proof]
        #[kani::unwind(10)]
        pub fn $name() {
            const N: usize = $N;
            const F: usize = $F;
            const DN: usize = $DN;
            const DF: usize = $DF;
            let o0 = ident::<RAB>(vec![3]);
            let o1 = ident::<RAB>(vec![1]);
            let n0 = ident::<RAB>(vec![3]);
            let n1 = ident::<RAB>(vec![1]);
            // SAFETY: the buffers outlive every use of the references below.
            let (old, new) = unsafe { ([o0.as_ref(), o1.as_ref()], [n0.as_ref(), n1.as_ref()]) };
            let oldp = [old[0].verif_pointer(), old[1].verif_pointer()];
            let newp = [new[0].verif_pointer(), new[1].verif_pointer()];
            let mut map = hashbrown::HashMap::with_hasher(fnv::FnvBuildHasher::default());
            map.insert(old[0], new[0]);
            map.insert(old[1], new[1]);
            let (src, free) = any_allocator::<RAB, N, F>(&old);
            let before = snap_alloc::<RAB, N>(&src);

            let result = if $FROM {
                // destination: any other valid allocator, pointing into the *new* archetypes
                let (mut dst, _dfree) = any_allocator::<RAB, DN, DF>(&new);
                // SAFETY: the map has an entry for every archetype the source refers to.
                unsafe { dst.clone_from(&src, &map) };
                dst
            } else {
                // SAFETY: as above.
                unsafe { src.clone(&map) }
            };

            vassert!(result.slots.len() == N, "clone has the source's slot count, whatever the destination held");
            vassert!(result.free.len() == F, "clone has the source's free list length, whatever the destination held");
            let mut j = 0;
            while j < F {
                vassert!(result.free[j] == free[j], "free-list order is copied (so both worlds issue the same identifiers next)");
                j += 1;
            }
            let mut i = 0;
            while i < N {
                let s = snap_slot(&result.slots[i]);
                vassert!(s.generation == before[i].generation, "generation copied");
                vassert!(s.active == before[i].active, "liveness copied");
                if s.active {
                    vassert!(s.loc_index == before[i].loc_index, "row copied");
                    vassert!(s.loc_ptr == mapped(before[i].loc_ptr, &oldp, &newp), "location points at the clone's own archetype");
                }
                i += 1;
            }
            vassert!(alloc_inv(&result), "AllocInv holds for the clone");
            // source untouched
            let mut i = 0;
            while i < N {
                let s = snap_slot(&src.slots[i]);
                vassert!(
                    s.generation == before[i].generation && s.active == before[i].active
                        && s.loc_ptr == before[i].loc_ptr && s.loc_index == before[i].loc_index,
                    "source untouched by clone"
                );
                i += 1;
            }
            kani::cover!(true, "reached end");
        }
    };
}

alloc_clone_step!(allocc_q_clone_n3_f1, src = (3, 1), dst = (0, 0), from = false);
alloc_clone_step!(allocc_q_clonefrom_n2_f1_into_n3_f2, src = (2, 1), dst = (3, 2), from = true);
alloc_clone_step!(allocc_t_clonefrom_n3_f2_into_n1_f0, src = (3, 2), dst = (1, 0), from = true);
alloc_clone_step!(allocc_t_clonefrom_n0_into_n2_f2, src = (0, 0), dst = (2, 2), from = true);
alloc_clone_step!(allocc_t_clone_n4_f4, src = (4, 4), dst = (0, 0), from = false);

// ------------------------------------------------------------------------------------------
// Allocator::shrink_to_fit (World::shrink_to_fit's allocator half): only capacity may change.
// Slots are never removed - their generations are what keeps stale identifiers dead.
// ------------------------------------------------------------------------------------------

macro_rules! alloc_shrink_step {
    ($name:ident, $N:expr, $F:expr) => {
        #[kani::proof]
        #[kani::unwind(8)]
        pub fn $name() {
            const N: usize = $N;
            const F: usize = $F;
            let id0 = ident::<RAB>(vec![3]);
            let id1 = ident::<RAB>(vec![1]);
            // SAFETY: the buffers outlive every use of the references below.
            let refs = unsafe { [id0.as_ref(), id1.as_ref()] };
            let (mut a, free) = any_allocator::<RAB, N, F>(&refs);
            let before = snap_alloc::<RAB, N>(&a);
            let probe = entity::Identifier::new(kani::any(), kani::any());
            let probe_before = a.get(probe);

            a.shrink_to_fit();

            vassert!(a.slots.len() == N, "shrink_to_fit never removes a slot (its generation keeps stale identifiers dead)");
            vassert!(a.free.len() == F, "shrink_to_fit keeps every free entry");
            let mut j = 0;
            while j < F {
                vassert!(a.free[j] == free[j], "shrink_to_fit keeps the free-list order");
                j += 1;
            }
            let mut i = 0;
            while i < N {
                let s = snap_slot(&a.slots[i]);
                vassert!(
                    s.generation == before[i].generation && s.active == before[i].active
                        && s.loc_ptr == before[i].loc_ptr && s.loc_index == before[i].loc_index,
                    "shrink_to_fit leaves every slot as it was"
                );
                i += 1;
            }
            vassert!(alloc_inv(&a), "AllocInv after shrink_to_fit");
            let probe_after = a.get(probe);
            vassert!(probe_after.is_some() == probe_before.is_some(), "shrink_to_fit changes no identifier's liveness");
            // and the next identifier issued for a freed slot is still a new one
            if F > 0 {
                let id = a.allocate(Location::new(refs[0], 0));
                let mut i = 0;
                while i < N {
                    if i == free[0] {
                        vassert!(id.index == i && id.generation == before[i].generation + 1, "reuse after shrink_to_fit still bumps the generation");
                    }
                    i += 1;
                }
            }
            kani::cover!(true, "reached end");
        }
    };
}

// the freed slot may be the highest-numbered one (symbolic free list covers it)
alloc_shrink_step!(allocs_q_n3_f2, 3, 2);
alloc_shrink_step!(allocs_t_n4_f4, 4, 4);
alloc_shrink_step!(allocs_t_n2_f0, 2, 0);
alloc_shrink_step!(allocs_q_n2_f1, 2, 1);
