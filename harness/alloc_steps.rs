// One-step inductive harnesses over `entity::Allocator` (C02, C13; memory checks feed C05).
//
// Pre-state: AllocInv(N, F) with symbolic contents.  One real operation with symbolic
// arguments.  Post: AllocInv re-established, effect and frame against the array snapshot,
// and the verdict on an arbitrary probe identifier (any index, any generation).

use super::common::*;
use crate::{
    entity,
    entity::allocator::{
        Allocator,
        Location,
        Locations,
    },
};
use alloc::{
    vec,
    vec::Vec,
};

fn in_prefix<const F: usize>(free: &[usize; F], upto: usize, x: usize) -> bool {
    let mut j = 0;
    let mut found = false;
    while j < F {
        if j < upto && free[j] == x {
            found = true;
        }
        j += 1;
    }
    found
}

macro_rules! alloc_batch_step {
    ($name:ident, $N:expr, $F:expr, $K:expr) => {
        #[kani::proof]
        #[kani::unwind(8)]
        pub fn $name() {
            const N: usize = $N;
            const F: usize = $F;
            const K: usize = $K;
            const REUSED: usize = if F < K { F } else { K };
            let id0 = ident::<RAB>(vec![3]);
            let id1 = ident::<RAB>(vec![1]);
            // SAFETY: the buffers outlive every use of the references below.
            let refs = unsafe { [id0.as_ref(), id1.as_ref()] };
            let (mut a, free) = any_allocator::<RAB, N, F>(&refs);
            let before = snap_alloc::<RAB, N>(&a);
            // The first row index is the target archetype's length: part of the concrete shape
            // (a symbolic `start` makes `Vec::with_capacity(locations.len())` a symbolic
            // allocation size).
            let start: usize = 1;

            let probe = entity::Identifier::new(kani::any(), kani::any());
            let probe_loc_before = a.get(probe);
            let probe_live_before = a.is_active(probe);
            vassert!(
                probe_live_before == probe_loc_before.is_some(),
                "get and is_active agree (pre)"
            );

            let ids = a.allocate_batch(Locations::new(start..start + K, refs[1]));

            // effect
            vassert!(ids.len() == K, "one identifier per batch row");
            vassert!(a.slots.len() == N + (K - REUSED), "slot table grows by the shortfall only");
            let mut j = 0;
            while j < K {
                if j < REUSED {
                    vassert!(ids[j].index == free[j], "reuse follows free-list order");
                    vassert!(
                        ids[j].generation == before[free[j]].generation + 1,
                        "reused slot gets a generation above every issued one"
                    );
                } else {
                    vassert!(ids[j].index == N + (j - REUSED), "fresh slots are appended in order");
                    vassert!(ids[j].generation == 0, "fresh slot starts at generation 0");
                }
                match a.get(ids[j]) {
                    Some(l) => {
                        vassert!(l.index == start + j, "j-th identifier resolves to j-th batch row");
                        vassert!(
                            l.identifier.verif_pointer() == refs[1].verif_pointer(),
                            "returned identifier resolves into the target archetype"
                        );
                    }
                    None => vassert!(false, "returned identifier must resolve"),
                }
                vassert!(a.is_active(ids[j]), "returned identifier is active");
                let mut k = 0;
                while k < j {
                    vassert!(ids[k] != ids[j], "returned identifiers pairwise distinct");
                    k += 1;
                }
                j += 1;
            }

            // free list: exactly the unused suffix, same order
            vassert!(a.free.len() == F - REUSED, "no free slot lost or duplicated");
            let mut j = 0;
            while j < F - REUSED {
                vassert!(a.free[j] == free[REUSED + j], "free-list order preserved");
                j += 1;
            }
            vassert!(alloc_inv(&a), "AllocInv after allocate_batch");

            // frame
            let mut i = 0;
            while i < N {
                if !in_prefix(&free, REUSED, i) {
                    let s = snap_slot(&a.slots[i]);
                    vassert!(s.generation == before[i].generation, "frame: generation");
                    vassert!(s.active == before[i].active, "frame: liveness");
                    vassert!(s.loc_ptr == before[i].loc_ptr, "frame: archetype");
                    vassert!(s.loc_index == before[i].loc_index, "frame: row");
                }
                i += 1;
            }

            // probe: stability and death
            let mut returned = false;
            let mut j = 0;
            while j < K {
                if ids[j] == probe {
                    returned = true;
                }
                j += 1;
            }
            let probe_loc_after = a.get(probe);
            vassert!(
                a.is_active(probe) == probe_loc_after.is_some(),
                "get and is_active agree (post)"
            );
            if let Some(l0) = probe_loc_before {
                vassert!(!returned, "a live identifier is never issued again");
                match probe_loc_after {
                    Some(l1) => vassert!(
                        l1.index == l0.index
                            && l1.identifier.verif_pointer() == l0.identifier.verif_pointer(),
                        "live identifier keeps resolving to the same place"
                    ),
                    None => vassert!(false, "live identifier stopped resolving"),
                }
            } else if !returned {
                vassert!(probe_loc_after.is_none(), "dead/never-issued identifier stays dead");
            }

            kani::cover!(true, "reached end");
            kani::cover!(probe_live_before, "probe was live");
            kani::cover!(returned, "probe is one of the returned identifiers");
        }
    };
}

// N slots, F free, batch K: all three relations K <, =, > F.
alloc_batch_step!(allocb_q_n0_f0_k0, 0, 0, 0);
alloc_batch_step!(allocb_q_n0_f0_k2, 0, 0, 2);
alloc_batch_step!(allocb_t_n2_f0_k1, 2, 0, 1);
alloc_batch_step!(allocb_q_n2_f1_k0, 2, 1, 0);
alloc_batch_step!(allocb_q_n2_f1_k1, 2, 1, 1);
alloc_batch_step!(allocb_q_n2_f1_k2, 2, 1, 2);
alloc_batch_step!(allocb_q_n3_f2_k1, 3, 2, 1);
alloc_batch_step!(allocb_t_n3_f2_k2, 3, 2, 2);
alloc_batch_step!(allocb_t_n3_f2_k3, 3, 2, 3);
alloc_batch_step!(allocb_t_n3_f3_k1, 3, 3, 1);
