// C06 / C11: serialization round trips and decoder behaviour on damaged input, over the harness
// serde back end (token array).  `alloc::fmt::format` is stubbed (error messages are not the
// subject); everything else is brood's real Serialize / Deserialize code.

use super::{
    arch::*,
    common::*,
    serde_backend::*,
};
use crate::{
    archetype,
    archetype::Archetype,
    entity,
};
use alloc::{
    string::String,
    vec,
    vec::Vec,
};
use serde::{
    Deserialize,
    Serialize,
};

pub fn stub_format(_args: core::fmt::Arguments<'_>) -> String {
    String::new()
}

fn any_ids<const N: usize>() -> [entity::Identifier; N] {
    let mut ids = [entity::Identifier::new(0, 0); N];
    let mut r = 0;
    while r < N {
        ids[r] = entity::Identifier::new(kani::any(), kani::any());
        r += 1;
    }
    ids
}

fn rows_eq_val(a: &[u64; MAXC], b: &[u64; MAXC], ncols: usize, dm: &[bool; MAXC]) -> bool {
    let mut eq = true;
    let mut k = 0;
    while k < MAXC {
        if k < ncols {
            let (x, y) = if dm[k] { (a[k] & 0xff, b[k] & 0xff) } else { (a[k], b[k]) };
            if x != y {
                eq = false;
            }
        }
        k += 1;
    }
    eq
}

/// No value has been dropped more than once (leaks are allowed on error paths: C11 forbids double
/// drops and undefined behaviour, not leaks).
fn ledger_at_most_once() -> bool {
    let mut ok = true;
    let mut i = 0;
    while i < LEDGER_SIZE {
        if ledger(i as u8) > 1 {
            ok = false;
        }
        i += 1;
    }
    ok
}

fn ledger_all_once() -> bool {
    let mut ok = true;
    let mut i = 0;
    while i < LEDGER_SIZE {
        let want = if (i as u8) < minted() { 1 } else { 0 };
        if ledger(i as u8) != want {
            ok = false;
        }
        i += 1;
    }
    ok
}

// ------------------------------------------------------------------------------------------
// Archetype: serialize -> deserialize, both encodings
// ------------------------------------------------------------------------------------------

macro_rules! arch_roundtrip {
    ($name:ident, $R:ty, [$($b:expr),*] x $N:expr, human_readable = $HR:expr) => {
        #[kani::proof]
        #[kani::unwind(18)]
        #[kani::stub(alloc::fmt::format, stub_format)]
        pub fn $name() {
            const N: usize = $N;
            let bits = [$($b),*];
            let ncols = popcount(&bits);
            let mut dm = [false; MAXC];
            <$R as Cols>::dmask(&bits, &mut dm, 0);
            let ids = any_ids::<N>();
            let src = any_archetype::<$R>(ident::<$R>(bits_to_bytes(&bits)), &bits, N, N, &ids);
            let sbefore = snap::<$R, N>(&src, &bits);
            let mut ser = Ser::new($HR);
            vassert!(src.serialize(&mut ser).is_ok(), "serialization of a valid archetype succeeds");
            let mut de = De::new(ser.toks, ser.len, $HR);
            match Archetype::<$R>::deserialize(&mut de) {
                Ok(back) => {
                    vassert!(de.pos == ser.len, "the decoder consumes exactly what the encoder wrote");
                    vassert!(arch_shape_ok(&back, &bits, N), "decoded archetype has the source's shape");
                    // SAFETY: both identifier buffers are live.
                    vassert!(unsafe { back.verif_raw().0.as_slice() == src.verif_raw().0.as_slice() }, "decoded archetype has the source's component set");
                    let b = snap::<$R, N>(&back, &bits);
                    let mut r = 0;
                    while r < N {
                        vassert!(rows_eq_val(&b.rows[r], &sbefore.rows[r], ncols, &dm), "decoded values equal the source's, row by row");
                        vassert!(b.ids[r] == sbefore.ids[r], "decoded identifiers equal the source's, row by row");
                        r += 1;
                    }
                    let mut i = 0;
                    while i < LEDGER_SIZE {
                        vassert!(ledger(i as u8) == 0, "a round trip drops nothing");
                        i += 1;
                    }
                    drop(back);
                    let s2 = snap::<$R, N>(&src, &bits);
                    let mut r = 0;
                    while r < N {
                        vassert!(rows_eq(&s2.rows[r], &sbefore.rows[r], ncols), "source intact after the decoded copy is dropped");
                        r += 1;
                    }
                }
                Result::Err(_) => vassert!(false, "deserializing a serialized archetype succeeds"),
            }
            drop(src);
            vassert!(ledger_all_once(), "every value (source and decoded) dropped exactly once");
            kani::cover!(true, "reached end");
        }
    };
}

arch_roundtrip!(serrt_q_azd_n2_rows, RAZD, [true, true, true] x 2, human_readable = true);
arch_roundtrip!(serrt_q_ad_n2_cols, RAZD, [true, false, true] x 2, human_readable = false); // (with the zero-sized column the column-wise decoder does not fit in 20 GB)
arch_roundtrip!(serrt_t_dbwa_n2_rows, RDBWA, [true, false, true, true] x 2, human_readable = true);
arch_roundtrip!(serrt_t_dbwa_n2_cols, RDBWA, [true, false, true, true] x 2, human_readable = false);
arch_roundtrip!(serrt_t_ab_n0_rows, RAB, [true, true] x 0, human_readable = true);
arch_roundtrip!(serrt_t_ab_n0_cols, RAB, [true, true] x 0, human_readable = false);
arch_roundtrip!(serrt_t_empty_n2_cols, RAB, [false, false] x 2, human_readable = false);

// ------------------------------------------------------------------------------------------
// Archetype decoders on damaged input: a read error at a symbolic token position; a token
// replaced by an arbitrary other token at a symbolic position.
// ------------------------------------------------------------------------------------------

macro_rules! arch_damaged {
    ($name:ident, $R:ty, [$($b:expr),*] x $N:expr, human_readable = $HR:expr, at = $AT:expr, mode = $MODE:tt) => {
        #[kani::proof]
        #[kani::unwind(42)]
        #[kani::stub(alloc::fmt::format, stub_format)]
        pub fn $name() {
            const N: usize = $N;
            let bits = [$($b),*];
            let ncols = popcount(&bits);
            let mut dm = [false; MAXC];
            <$R as Cols>::dmask(&bits, &mut dm, 0);
            let ids = any_ids::<N>();
            let src = any_archetype::<$R>(ident::<$R>(bits_to_bytes(&bits)), &bits, N, N, &ids);
            let sbefore = snap::<$R, N>(&src, &bits);
            let mut ser = Ser::new($HR);
            vassert!(src.serialize(&mut ser).is_ok(), "serialization of a valid archetype succeeds");
            let minted_src = minted();
            let mut de = De::new(ser.toks, ser.len, $HR);
            // The damaged position is a macro parameter: with a symbolic position every decoding
            // decision becomes symbolic and the run does not fit in memory (measured).  The
            // positions are swept by the instance list below; values stay symbolic.
            let at: usize = $AT;
            vassert!(at < ser.len, "damaged position inside the stream (harness bug)");
            arch_damaged!(@apply $MODE, de, at, ser);
            let result = Archetype::<$R>::deserialize(&mut de);
            match result {
                Ok(back) => {
                    arch_damaged!(@ok $MODE);
                    // whatever came back is a well-formed archetype whose columns can be read and freed
                    let (bident, _, bcols, bn) = back.verif_raw();
                    vassert!(bcols.len() == bident.count(), "an accepted archetype has one column per component of its set");
                    vassert!(bn <= N + 1, "declared length within the input size (harness bound)");
                    drop(back);
                }
                Result::Err(_) => {}
            }
            vassert!(ledger_at_most_once(), "no value dropped twice, whether decoding failed or not");
            // the source never lost anything
            let gone = [false; N];
            let mut k = 0;
            while k < MAXC {
                if k < ncols && dm[k] {
                    let mut r = 0;
                    while r < N {
                        vassert!(ledger(d_id_of_fp(sbefore.rows[r][k])) == 0, "decoding never touches the source's values");
                        r += 1;
                    }
                }
                k += 1;
            }
            let _ = (gone, minted_src);
            drop(src);
            vassert!(ledger_at_most_once(), "still no value dropped twice after the source is gone");
            kani::cover!(true, "reached end");
        }
    };
    (@apply read_error, $de:ident, $at:ident, $ser:ident) => {
        $de.fail_at = $at;
    };
    (@apply (set $tok:expr), $de:ident, $at:ident, $ser:ident) => {
        $de.toks.set($at, $tok);
    };
    (@ok read_error) => {
        vassert!(false, "a stream with an unreadable token is never accepted");
    };
    (@ok (set $tok:expr)) => {};
}

arch_damaged!(serbad_t_ad_n2_rows_err00, RAZD, [true, false, true] x 2, human_readable = true, at = 0, mode = read_error);
arch_damaged!(serbad_t_ad_n2_rows_err01, RAZD, [true, false, true] x 2, human_readable = true, at = 1, mode = read_error);
arch_damaged!(serbad_t_ad_n2_rows_err02, RAZD, [true, false, true] x 2, human_readable = true, at = 2, mode = read_error);
arch_damaged!(serbad_t_ad_n2_rows_err03, RAZD, [true, false, true] x 2, human_readable = true, at = 3, mode = read_error);
arch_damaged!(serbad_t_ad_n2_rows_err04, RAZD, [true, false, true] x 2, human_readable = true, at = 4, mode = read_error);
arch_damaged!(serbad_t_ad_n2_rows_err05, RAZD, [true, false, true] x 2, human_readable = true, at = 5, mode = read_error);
arch_damaged!(serbad_t_ad_n2_rows_err06, RAZD, [true, false, true] x 2, human_readable = true, at = 6, mode = read_error);
arch_damaged!(serbad_t_ad_n2_rows_err07, RAZD, [true, false, true] x 2, human_readable = true, at = 7, mode = read_error);
arch_damaged!(serbad_q_ad_n2_rows_err08, RAZD, [true, false, true] x 2, human_readable = true, at = 8, mode = read_error);
arch_damaged!(serbad_t_ad_n2_rows_err09, RAZD, [true, false, true] x 2, human_readable = true, at = 9, mode = read_error);
arch_damaged!(serbad_t_ad_n2_rows_err10, RAZD, [true, false, true] x 2, human_readable = true, at = 10, mode = read_error);
arch_damaged!(serbad_t_ad_n2_rows_err11, RAZD, [true, false, true] x 2, human_readable = true, at = 11, mode = read_error);
arch_damaged!(serbad_t_ad_n2_rows_err12, RAZD, [true, false, true] x 2, human_readable = true, at = 12, mode = read_error);
arch_damaged!(serbad_t_ad_n2_rows_err13, RAZD, [true, false, true] x 2, human_readable = true, at = 13, mode = read_error);
arch_damaged!(serbad_q_ad_n2_rows_err14, RAZD, [true, false, true] x 2, human_readable = true, at = 14, mode = read_error);
arch_damaged!(serbad_t_ad_n2_rows_err15, RAZD, [true, false, true] x 2, human_readable = true, at = 15, mode = read_error);
arch_damaged!(serbad_t_ad_n2_rows_err16, RAZD, [true, false, true] x 2, human_readable = true, at = 16, mode = read_error);
arch_damaged!(serbad_t_ad_n2_rows_err17, RAZD, [true, false, true] x 2, human_readable = true, at = 17, mode = read_error);
arch_damaged!(serbad_t_ad_n2_rows_err18, RAZD, [true, false, true] x 2, human_readable = true, at = 18, mode = read_error);
arch_damaged!(serbad_t_ad_n2_rows_err19, RAZD, [true, false, true] x 2, human_readable = true, at = 19, mode = read_error);
arch_damaged!(serbad_t_ad_n2_rows_err20, RAZD, [true, false, true] x 2, human_readable = true, at = 20, mode = read_error);
arch_damaged!(serbad_q_ad_n2_rows_err21, RAZD, [true, false, true] x 2, human_readable = true, at = 21, mode = read_error);
arch_damaged!(serbad_t_ad_n2_rows_err22, RAZD, [true, false, true] x 2, human_readable = true, at = 22, mode = read_error);
arch_damaged!(serbad_t_ad_n2_rows_err23, RAZD, [true, false, true] x 2, human_readable = true, at = 23, mode = read_error);
arch_damaged!(serbad_t_ad_n2_rows_err24, RAZD, [true, false, true] x 2, human_readable = true, at = 24, mode = read_error);
arch_damaged!(serbad_t_ad_n2_cols_err00, RAZD, [true, false, true] x 2, human_readable = false, at = 0, mode = read_error);
arch_damaged!(serbad_t_ad_n2_cols_err01, RAZD, [true, false, true] x 2, human_readable = false, at = 1, mode = read_error);
arch_damaged!(serbad_t_ad_n2_cols_err02, RAZD, [true, false, true] x 2, human_readable = false, at = 2, mode = read_error);
arch_damaged!(serbad_t_ad_n2_cols_err03, RAZD, [true, false, true] x 2, human_readable = false, at = 3, mode = read_error);
arch_damaged!(serbad_t_ad_n2_cols_err04, RAZD, [true, false, true] x 2, human_readable = false, at = 4, mode = read_error);
arch_damaged!(serbad_t_ad_n2_cols_err05, RAZD, [true, false, true] x 2, human_readable = false, at = 5, mode = read_error);
arch_damaged!(serbad_t_ad_n2_cols_err06, RAZD, [true, false, true] x 2, human_readable = false, at = 6, mode = read_error);
arch_damaged!(serbad_t_ad_n2_cols_err07, RAZD, [true, false, true] x 2, human_readable = false, at = 7, mode = read_error);
arch_damaged!(serbad_t_ad_n2_cols_err08, RAZD, [true, false, true] x 2, human_readable = false, at = 8, mode = read_error);
arch_damaged!(serbad_q_ad_n2_cols_err09, RAZD, [true, false, true] x 2, human_readable = false, at = 9, mode = read_error);
arch_damaged!(serbad_t_ad_n2_cols_err10, RAZD, [true, false, true] x 2, human_readable = false, at = 10, mode = read_error);
arch_damaged!(serbad_t_ad_n2_cols_err11, RAZD, [true, false, true] x 2, human_readable = false, at = 11, mode = read_error);
arch_damaged!(serbad_t_ad_n2_cols_err12, RAZD, [true, false, true] x 2, human_readable = false, at = 12, mode = read_error);
arch_damaged!(serbad_t_ad_n2_cols_err13, RAZD, [true, false, true] x 2, human_readable = false, at = 13, mode = read_error);
arch_damaged!(serbad_t_ad_n2_cols_err14, RAZD, [true, false, true] x 2, human_readable = false, at = 14, mode = read_error);
arch_damaged!(serbad_t_ad_n2_cols_err15, RAZD, [true, false, true] x 2, human_readable = false, at = 15, mode = read_error);
arch_damaged!(serbad_t_ad_n2_cols_err16, RAZD, [true, false, true] x 2, human_readable = false, at = 16, mode = read_error);
arch_damaged!(serbad_t_ad_n2_cols_err17, RAZD, [true, false, true] x 2, human_readable = false, at = 17, mode = read_error);
arch_damaged!(serbad_t_ad_n2_cols_err18, RAZD, [true, false, true] x 2, human_readable = false, at = 18, mode = read_error);
arch_damaged!(serbad_t_ad_n2_cols_err19, RAZD, [true, false, true] x 2, human_readable = false, at = 19, mode = read_error);
arch_damaged!(serbad_q_ad_n2_cols_err20, RAZD, [true, false, true] x 2, human_readable = false, at = 20, mode = read_error);
arch_damaged!(serbad_t_ad_n2_cols_err21, RAZD, [true, false, true] x 2, human_readable = false, at = 21, mode = read_error);
arch_damaged!(serbad_t_ad_n2_cols_err22, RAZD, [true, false, true] x 2, human_readable = false, at = 22, mode = read_error);
arch_damaged!(serbad_t_ad_n2_cols_err23, RAZD, [true, false, true] x 2, human_readable = false, at = 23, mode = read_error);
arch_damaged!(serbad_q_ad_n2_cols_err24, RAZD, [true, false, true] x 2, human_readable = false, at = 24, mode = read_error);
arch_damaged!(serbad_t_ad_n2_cols_err25, RAZD, [true, false, true] x 2, human_readable = false, at = 25, mode = read_error);
arch_damaged!(serbad_t_ad_n2_cols_err26, RAZD, [true, false, true] x 2, human_readable = false, at = 26, mode = read_error);
arch_damaged!(serbad_t_ad_n2_rows_idbyte_a_only, RAZD, [true, false, true] x 2, human_readable = true, at = 3, mode = (set Tok::U8(1)));
arch_damaged!(serbad_t_ad_n2_cols_idbyte_a_only, RAZD, [true, false, true] x 2, human_readable = false, at = 3, mode = (set Tok::U8(1)));
arch_damaged!(serbad_q_ad_n2_rows_idbyte_all, RAZD, [true, false, true] x 2, human_readable = true, at = 3, mode = (set Tok::U8(7)));
arch_damaged!(serbad_q_ad_n2_cols_idbyte_all, RAZD, [true, false, true] x 2, human_readable = false, at = 3, mode = (set Tok::U8(7)));
arch_damaged!(serbad_t_ad_n2_rows_idbyte_none, RAZD, [true, false, true] x 2, human_readable = true, at = 3, mode = (set Tok::U8(0)));
arch_damaged!(serbad_t_ad_n2_cols_idbyte_none, RAZD, [true, false, true] x 2, human_readable = false, at = 3, mode = (set Tok::U8(0)));
arch_damaged!(serbad_t_ad_n2_rows_idbyte_padding, RAZD, [true, false, true] x 2, human_readable = true, at = 3, mode = (set Tok::U8(0x85)));
arch_damaged!(serbad_t_ad_n2_cols_idbyte_padding, RAZD, [true, false, true] x 2, human_readable = false, at = 3, mode = (set Tok::U8(0x85)));
arch_damaged!(serbad_t_ad_n2_rows_len_1, RAZD, [true, false, true] x 2, human_readable = true, at = 5, mode = (set Tok::U64(1)));
arch_damaged!(serbad_t_ad_n2_cols_len_1, RAZD, [true, false, true] x 2, human_readable = false, at = 5, mode = (set Tok::U64(1)));
arch_damaged!(serbad_q_ad_n2_rows_len_3, RAZD, [true, false, true] x 2, human_readable = true, at = 5, mode = (set Tok::U64(3)));
arch_damaged!(serbad_q_ad_n2_cols_len_3, RAZD, [true, false, true] x 2, human_readable = false, at = 5, mode = (set Tok::U64(3)));
arch_damaged!(serbad_t_ad_n2_rows_len_0, RAZD, [true, false, true] x 2, human_readable = true, at = 5, mode = (set Tok::U64(0)));
arch_damaged!(serbad_t_ad_n2_cols_len_0, RAZD, [true, false, true] x 2, human_readable = false, at = 5, mode = (set Tok::U64(0)));
arch_damaged!(serbad_t_ad_n2_rows_early_end, RAZD, [true, false, true] x 2, human_readable = true, at = 13, mode = (set Tok::TupleEnd));
arch_damaged!(serbad_t_ad_n2_cols_early_end, RAZD, [true, false, true] x 2, human_readable = false, at = 13, mode = (set Tok::TupleEnd));

// ------------------------------------------------------------------------------------------
// archetype::Identifier: accepted exactly when the padding bits are clear
// ------------------------------------------------------------------------------------------

macro_rules! ident_decode {
    ($name:ident, $R:ty, bytes = $NB:expr, len = $LEN:expr) => {
        #[kani::proof]
        #[kani::unwind(6)]
        #[kani::stub(alloc::fmt::format, stub_format)]
        pub fn $name() {
            let bytes: [u8; $NB] = kani::any();
            let mut toks = Stream::new();
            toks.set(0, Tok::Tuple);
            let mut i = 0;
            while i < $NB {
                toks.set(1 + i, Tok::U8(bytes[i]));
                i += 1;
            }
            toks.set(1 + $NB, Tok::TupleEnd);
            let mut de = De::new(toks, 2 + $NB, true);
            let padding_clear = $LEN % 8 == 0 || $NB == 0 || (bytes[$NB - 1] as u32) >> ($LEN % 8) == 0;
            match archetype::Identifier::<$R>::deserialize(&mut de) {
                Ok(id) => {
                    vassert!(padding_clear, "an identifier with set padding bits is rejected");
                    // SAFETY: the buffer is live.
                    let s = unsafe { id.as_slice() };
                    let mut i = 0;
                    while i < $NB {
                        vassert!(s[i] == bytes[i], "decoded identifier holds the given bytes");
                        i += 1;
                    }
                    // round trip
                    let mut ser = Ser::new(true);
                    vassert!(id.serialize(&mut ser).is_ok() && ser.len == 2 + $NB, "identifier serializes to its bytes");
                    let mut i = 0;
                    while i < $NB {
                        vassert!(ser.toks.get(1 + i) == Tok::U8(bytes[i]), "serialized bytes equal the identifier's");
                        i += 1;
                    }
                }
                Result::Err(_) => vassert!(!padding_clear, "an identifier with clear padding bits is accepted"),
            }
            kani::cover!(padding_clear, "accepted");
            kani::cover!(!padding_clear || $LEN % 8 == 0, "rejected");
        }
    };
}

ident_decode!(identde_q_dbwa, RDBWA, bytes = 1, len = 4);
ident_decode!(identde_q_r9, R9, bytes = 2, len = 9);
ident_decode!(identde_t_r8, R8, bytes = 1, len = 8);
ident_decode!(identde_t_r0, R0, bytes = 0, len = 0);
ident_decode!(identde_t_r1, R1, bytes = 1, len = 1);

