// C06 / C11: serialization round trips and decoder behaviour on damaged input, over the harness
// serde back end (token array).  `alloc::fmt::format` is stubbed (error messages are not the
// subject); everything else is brood's real Serialize / Deserialize code.

use super::{
    arch::*,
    common::*,
    serde_backend::*,
};
use crate::{
    archetype,
    archetype::Archetype,
    entity,
};
use alloc::{
    string::String,
    vec,
    vec::Vec,
};
use serde::{
    Deserialize,
    Serialize,
};

pub fn stub_format(_args: core::fmt::Arguments<'_>) -> String {
    String::new()
}

fn any_ids<const N: usize>() -> [entity::Identifier; N] {
    let mut ids = [entity::Identifier::new(0, 0); N];
    let mut r = 0;
    while r < N {
        ids[r] = entity::Identifier::new(kani::any(), kani::any());
        r += 1;
    }
    ids
}

fn rows_eq_val(a: &[u64; MAXC], b: &[u64; MAXC], ncols: usize, dm: &[bool; MAXC]) -> bool {
    let mut eq = true;
    let mut k = 0;
    while k < MAXC {
        if k < ncols {
            let (x, y) = if dm[k] { (a[k] & 0xff, b[k] & 0xff) } else { (a[k], b[k]) };
            if x != y {
                eq = false;
            }
        }
        k += 1;
    }
    eq
}

/// No value has been dropped more than once (leaks are allowed on error paths: C11 forbids double
/// drops and undefined behaviour, not leaks).
fn ledger_at_most_once() -> bool {
    let mut ok = true;
    let mut i = 0;
    while i < LEDGER_SIZE {
        if ledger(i as u8) > 1 {
            ok = false;
        }
        i += 1;
    }
    ok
}

fn ledger_all_once() -> bool {
    let mut ok = true;
    let mut i = 0;
    while i < LEDGER_SIZE {
        let want = if (i as u8) < minted() { 1 } else { 0 };
        if ledger(i as u8) != want {
            ok = false;
        }
        i += 1;
    }
    ok
}

// ------------------------------------------------------------------------------------------
// Archetype: serialize -> deserialize, both encodings
// ------------------------------------------------------------------------------------------

macro_rules! arch_roundtrip {
    ($name:ident, $R:ty, [$($b:expr),*] x $N:expr, human_readable = $HR:expr) => {
        #[kani::proof]
        #[kani::unwind(18)]
        #[kani::stub(alloc::fmt::format, stub_format)]
        pub fn $name() {
            const N: usize = $N;
            let bits = [$($b),*];
            let ncols = popcount(&bits);
            let mut dm = [false; MAXC];
            <$R as Cols>::dmask(&bits, &mut dm, 0);
            let ids = any_ids::<N>();
            let src = any_archetype::<$R>(ident::<$R>(bits_to_bytes(&bits)), &bits, N, N, &ids);
            let sbefore = snap::<$R, N>(&src, &bits);
            let mut ser = Ser::new($HR);
            vassert!(src.serialize(&mut ser).is_ok(), "serialization of a valid archetype succeeds");
            let mut de = De::new(ser.toks, ser.len, $HR);
            match Archetype::<$R>::deserialize(&mut de) {
                Ok(back) => {
                    vassert!(de.pos == ser.len, "the decoder consumes exactly what the encoder wrote");
                    vassert!(arch_shape_ok(&back, &bits, N), "decoded archetype has the source's shape");
                    // SAFETY: both identifier buffers are live.
                    vassert!(unsafe { back.verif_raw().0.as_slice() == src.verif_raw().0.as_slice() }, "decoded archetype has the source's component set");
                    let b = snap::<$R, N>(&back, &bits);
                    let mut r = 0;
                    while r < N {
                        vassert!(rows_eq_val(&b.rows[r], &sbefore.rows[r], ncols, &dm), "decoded values equal the source's, row by row");
                        vassert!(b.ids[r] == sbefore.ids[r], "decoded identifiers equal the source's, row by row");
                        r += 1;
                    }
                    let mut i = 0;
                    while i < LEDGER_SIZE {
                        vassert!(ledger(i as u8) == 0, "a round trip drops nothing");
                        i += 1;
                    }
                    drop(back);
                    let s2 = snap::<$R, N>(&src, &bits);
                    let mut r = 0;
                    while r < N {
                        vassert!(rows_eq(&s2.rows[r], &sbefore.rows[r], ncols), "source intact after the decoded copy is dropped");
                        r += 1;
                    }
                }
                Result::Err(_) => vassert!(false, "deserializing a serialized archetype succeeds"),
            }
            drop(src);
            vassert!(ledger_all_once(), "every value (source and decoded) dropped exactly once");
            kani::cover!(true, "reached end");
        }
    };
}

arch_roundtrip!(serrt_q_azd_n2_rows, RAZD, [true, true, true] x 2, human_readable = true);
arch_roundtrip!(serrt_q_ad_n2_cols, RAZD, [true, false, true] x 2, human_readable = false); // (with the zero-sized column the column-wise decoder does not fit in 20 GB)
arch_roundtrip!(serrt_q_ad_n2_rows, RAZD, [true, false, true] x 2, human_readable = true);
arch_roundtrip!(serrt_t_dbwa_n2_rows, RDBWA, [true, false, true, true] x 2, human_readable = true);
arch_roundtrip!(serrt_t_dbwa_n2_cols, RDBWA, [true, false, true, true] x 2, human_readable = false);
arch_roundtrip!(serrt_t_ab_n0_rows, RAB, [true, true] x 0, human_readable = true);
arch_roundtrip!(serrt_t_ab_n0_cols, RAB, [true, true] x 0, human_readable = false);
arch_roundtrip!(serrt_t_empty_n2_cols, RAB, [false, false] x 2, human_readable = false);

// ------------------------------------------------------------------------------------------
// Archetype decoders on damaged input: a read error at a symbolic token position; a token
// replaced by an arbitrary other token at a symbolic position.
// ------------------------------------------------------------------------------------------

macro_rules! arch_damaged {
    ($name:ident, $R:ty, [$($b:expr),*] x $N:expr, human_readable = $HR:expr, at = $AT:expr, mode = $MODE:tt) => {
        #[kani::proof]
        #[kani::unwind(42)]
        #[kani::stub(alloc::fmt::format, stub_format)]
        pub fn $name() {
            const N: usize = $N;
            let bits = [$($b),*];
            let ncols = popcount(&bits);
            let mut dm = [false; MAXC];
            <$R as Cols>::dmask(&bits, &mut dm, 0);
            let ids = any_ids::<N>();
            let src = any_archetype::<$R>(ident::<$R>(bits_to_bytes(&bits)), &bits, N, N, &ids);
            let sbefore = snap::<$R, N>(&src, &bits);
            let mut ser = Ser::new($HR);
            vassert!(src.serialize(&mut ser).is_ok(), "serialization of a valid archetype succeeds");
            let minted_src = minted();
            let mut de = De::new(ser.toks, ser.len, $HR);
            // The damaged position is a macro parameter: with a symbolic position every decoding
            // decision becomes symbolic and the run does not fit in memory (measured).  The
            // positions are swept by the instance list below; values stay symbolic.
            let at: usize = $AT;
            vassert!(at < ser.len, "damaged position inside the stream (harness bug)");
            arch_damaged!(@apply $MODE, de, at, ser);
            let result = Archetype::<$R>::deserialize(&mut de);
            match result {
                Ok(back) => {
                    arch_damaged!(@ok $MODE);
                    // whatever came back is a well-formed archetype whose columns can be read and freed
                    let (bident, _, bcols, bn) = back.verif_raw();
                    vassert!(bcols.len() == bident.count(), "an accepted archetype has one column per component of its set");
                    vassert!(bn <= N + 1, "declared length within the input size (harness bound)");
                    drop(back);
                }
                Result::Err(_) => {}
            }
            vassert!(ledger_at_most_once(), "no value dropped twice, whether decoding failed or not");
            // the source never lost anything
            let gone = [false; N];
            let mut k = 0;
            while k < MAXC {
                if k < ncols && dm[k] {
                    let mut r = 0;
                    while r < N {
                        vassert!(ledger(d_id_of_fp(sbefore.rows[r][k])) == 0, "decoding never touches the source's values");
                        r += 1;
                    }
                }
                k += 1;
            }
            let _ = (gone, minted_src);
            drop(src);
            vassert!(ledger_at_most_once(), "still no value dropped twice after the source is gone");
            kani::cover!(true, "reached end");
        }
    };
    (@apply read_error, $de:ident, $at:ident, $ser:ident) => {
        $de.fail_at = $at;
    };
    (@apply (set $tok:expr), $de:ident, $at:ident, $ser:ident) => {
        $de.toks.set($at, $tok);
    };
    (@ok read_error) => {
        vassert!(false, "a stream with an unreadable token is never accepted");
    };
    (@ok (set $tok:expr)) => {};
}

arch_damaged!(serbad_t_ad_n2_rows_err00, RAZD, [true, false, true] x 2, human_readable = true, at = 0, mode = read_error);
arch_damaged!(serbad_t_ad_n2_rows_err01, RAZD, [true, false, true] x 2, human_readable = true, at = 1, mode = read_error);
arch_damaged!(serbad_t_ad_n2_rows_err02, RAZD, [true, false, true] x 2, human_readable = true, at = 2, mode = read_error);
arch_damaged!(serbad_t_ad_n2_rows_err03, RAZD, [true, false, true] x 2, human_readable = true, at = 3, mode = read_error);
arch_damaged!(serbad_t_ad_n2_rows_err04, RAZD, [true, false, true] x 2, human_readable = true, at = 4, mode = read_error);
arch_damaged!(serbad_t_ad_n2_rows_err05, RAZD, [true, false, true] x 2, human_readable = true, at = 5, mode = read_error);
arch_damaged!(serbad_t_ad_n2_rows_err06, RAZD, [true, false, true] x 2, human_readable = true, at = 6, mode = read_error);
arch_damaged!(serbad_t_ad_n2_rows_err07, RAZD, [true, false, true] x 2, human_readable = true, at = 7, mode = read_error);
arch_damaged!(serbad_q_ad_n2_rows_err08, RAZD, [true, false, true] x 2, human_readable = true, at = 8, mode = read_error);
arch_damaged!(serbad_t_ad_n2_rows_err09, RAZD, [true, false, true] x 2, human_readable = true, at = 9, mode = read_error);
arch_damaged!(serbad_t_ad_n2_rows_err10, RAZD, [true, false, true] x 2, human_readable = true, at = 10, mode = read_error);
arch_damaged!(serbad_t_ad_n2_rows_err11, RAZD, [true, false, true] x 2, human_readable = true, at = 11, mode = read_error);
arch_damaged!(serbad_t_ad_n2_rows_err12, RAZD, [true, false, true] x 2, human_readable = true, at = 12, mode = read_error);
arch_damaged!(serbad_t_ad_n2_rows_err13, RAZD, [true, false, true] x 2, human_readable = true, at = 13, mode = read_error);
arch_damaged!(serbad_q_ad_n2_rows_err14, RAZD, [true, false, true] x 2, human_readable = true, at = 14, mode = read_error);
arch_damaged!(serbad_t_ad_n2_rows_err15, RAZD, [true, false, true] x 2, human_readable = true, at = 15, mode = read_error);
arch_damaged!(serbad_t_ad_n2_rows_err16, RAZD, [true, false, true] x 2, human_readable = true, at = 16, mode = read_error);
arch_damaged!(serbad_t_ad_n2_rows_err17, RAZD, [true, false, true] x 2, human_readable = true, at = 17, mode = read_error);
arch_damaged!(serbad_t_ad_n2_rows_err18, RAZD, [true, false, true] x 2, human_readable = true, at = 18, mode = read_error);
arch_damaged!(serbad_t_ad_n2_rows_err19, RAZD, [true, false, true] x 2, human_readable = true, at = 19, mode = read_error);
arch_damaged!(serbad_t_ad_n2_rows_err20, RAZD, [true, false, true] x 2, human_readable = true, at = 20, mode = read_error);
arch_damaged!(serbad_q_ad_n2_rows_err21, RAZD, [true, false, true] x 2, human_readable = true, at = 21, mode = read_error);
arch_damaged!(serbad_t_ad_n2_rows_err22, RAZD, [true, false, true] x 2, human_readable = true, at = 22, mode = read_error);
arch_damaged!(serbad_t_ad_n2_rows_err23, RAZD, [true, false, true] x 2, human_readable = true, at = 23, mode = read_error);
arch_damaged!(serbad_t_ad_n2_rows_err24, RAZD, [true, false, true] x 2, human_readable = true, at = 24, mode = read_error);
arch_damaged!(serbad_t_ad_n2_cols_err00, RAZD, [true, false, true] x 2, human_readable = false, at = 0, mode = read_error);
arch_damaged!(serbad_t_ad_n2_cols_err01, RAZD, [true, false, true] x 2, human_readable = false, at = 1, mode = read_error);
arch_damaged!(serbad_t_ad_n2_cols_err02, RAZD, [true, false, true] x 2, human_readable = false, at = 2, mode = read_error);
arch_damaged!(serbad_t_ad_n2_cols_err03, RAZD, [true, false, true] x 2, human_readable = false, at = 3, mode = read_error);
arch_damaged!(serbad_t_ad_n2_cols_err04, RAZD, [true, false, true] x 2, human_readable = false, at = 4, mode = read_error);
arch_damaged!(serbad_t_ad_n2_cols_err05, RAZD, [true, false, true] x 2, human_readable = false, at = 5, mode = read_error);
arch_damaged!(serbad_t_ad_n2_cols_err06, RAZD, [true, false, true] x 2, human_readable = false, at = 6, mode = read_error);
arch_damaged!(serbad_t_ad_n2_cols_err07, RAZD, [true, false, true] x 2, human_readable = false, at = 7, mode = read_error);
arch_damaged!(serbad_t_ad_n2_cols_err08, RAZD, [true, false, true] x 2, human_readable = false, at = 8, mode = read_error);
arch_damaged!(serbad_q_ad_n2_cols_err09, RAZD, [true, false, true] x 2, human_readable = false, at = 9, mode = read_error);
arch_damaged!(serbad_t_ad_n2_cols_err10, RAZD, [true, false, true] x 2, human_readable = false, at = 10, mode = read_error);
arch_damaged!(serbad_t_ad_n2_cols_err11, RAZD, [true, false, true] x 2, human_readable = false, at = 11, mode = read_error);
arch_damaged!(serbad_t_ad_n2_cols_err12, RAZD, [true, false, true] x 2, human_readable = false, at = 12, mode = read_error);
arch_damaged!(serbad_t_ad_n2_cols_err13, RAZD, [true, false, true] x 2, human_readable = false, at = 13, mode = read_error);
arch_damaged!(serbad_t_ad_n2_cols_err14, RAZD, [true, false, true] x 2, human_readable = false, at = 14, mode = read_error);
arch_damaged!(serbad_t_ad_n2_cols_err15, RAZD, [true, false, true] x 2, human_readable = false, at = 15, mode = read_error);
arch_damaged!(serbad_t_ad_n2_cols_err16, RAZD, [true, false, true] x 2, human_readable = false, at = 16, mode = read_error);
arch_damaged!(serbad_t_ad_n2_cols_err17, RAZD, [true, false, true] x 2, human_readable = false, at = 17, mode = read_error);
arch_damaged!(serbad_t_ad_n2_cols_err18, RAZD, [true, false, true] x 2, human_readable = false, at = 18, mode = read_error);
arch_damaged!(serbad_t_ad_n2_cols_err19, RAZD, [true, false, true] x 2, human_readable = false, at = 19, mode = read_error);
arch_damaged!(serbad_q_ad_n2_cols_err20, RAZD, [true, false, true] x 2, human_readable = false, at = 20, mode = read_error);
arch_damaged!(serbad_t_ad_n2_cols_err21, RAZD, [true, false, true] x 2, human_readable = false, at = 21, mode = read_error);
arch_damaged!(serbad_t_ad_n2_cols_err22, RAZD, [true, false, true] x 2, human_readable = false, at = 22, mode = read_error);
arch_damaged!(serbad_t_ad_n2_cols_err23, RAZD, [true, false, true] x 2, human_readable = false, at = 23, mode = read_error);
arch_damaged!(serbad_q_ad_n2_cols_err24, RAZD, [true, false, true] x 2, human_readable = false, at = 24, mode = read_error);
arch_damaged!(serbad_t_ad_n2_cols_err25, RAZD, [true, false, true] x 2, human_readable = false, at = 25, mode = read_error);
arch_damaged!(serbad_t_ad_n2_cols_err26, RAZD, [true, false, true] x 2, human_readable = false, at = 26, mode = read_error);
arch_damaged!(serbad_t_ad_n2_rows_idbyte_a_only, RAZD, [true, false, true] x 2, human_readable = true, at = 3, mode = (set Tok::U8(1)));
arch_damaged!(serbad_t_ad_n2_cols_idbyte_a_only, RAZD, [true, false, true] x 2, human_readable = false, at = 3, mode = (set Tok::U8(1)));
arch_damaged!(serbad_q_ad_n2_rows_idbyte_all, RAZD, [true, false, true] x 2, human_readable = true, at = 3, mode = (set Tok::U8(7)));
arch_damaged!(serbad_q_ad_n2_cols_idbyte_all, RAZD, [true, false, true] x 2, human_readable = false, at = 3, mode = (set Tok::U8(7)));
arch_damaged!(serbad_t_ad_n2_rows_idbyte_none, RAZD, [true, false, true] x 2, human_readable = true, at = 3, mode = (set Tok::U8(0)));
arch_damaged!(serbad_t_ad_n2_cols_idbyte_none, RAZD, [true, false, true] x 2, human_readable = false, at = 3, mode = (set Tok::U8(0)));
arch_damaged!(serbad_t_ad_n2_rows_idbyte_padding, RAZD, [true, false, true] x 2, human_readable = true, at = 3, mode = (set Tok::U8(0x85)));
arch_damaged!(serbad_t_ad_n2_cols_idbyte_padding, RAZD, [true, false, true] x 2, human_readable = false, at = 3, mode = (set Tok::U8(0x85)));
arch_damaged!(serbad_t_ad_n2_rows_len_1, RAZD, [true, false, true] x 2, human_readable = true, at = 5, mode = (set Tok::U64(1)));
arch_damaged!(serbad_t_ad_n2_cols_len_1, RAZD, [true, false, true] x 2, human_readable = false, at = 5, mode = (set Tok::U64(1)));
arch_damaged!(serbad_q_ad_n2_rows_len_3, RAZD, [true, false, true] x 2, human_readable = true, at = 5, mode = (set Tok::U64(3)));
arch_damaged!(serbad_q_ad_n2_cols_len_3, RAZD, [true, false, true] x 2, human_readable = false, at = 5, mode = (set Tok::U64(3)));
arch_damaged!(serbad_t_ad_n2_rows_len_0, RAZD, [true, false, true] x 2, human_readable = true, at = 5, mode = (set Tok::U64(0)));
arch_damaged!(serbad_t_ad_n2_cols_len_0, RAZD, [true, false, true] x 2, human_readable = false, at = 5, mode = (set Tok::U64(0)));
arch_damaged!(serbad_t_ad_n2_rows_early_end, RAZD, [true, false, true] x 2, human_readable = true, at = 13, mode = (set Tok::TupleEnd));
arch_damaged!(serbad_t_ad_n2_cols_early_end, RAZD, [true, false, true] x 2, human_readable = false, at = 13, mode = (set Tok::TupleEnd));

arch_damaged!(serbad_q_dbwa_n1_cols_err_third_column, RDBWA, [true, true, false, true] x 1, human_readable = false, at = 20, mode = read_error);
arch_damaged!(serbad_t_dbwa_n1_cols_err_second_column, RDBWA, [true, true, false, true] x 1, human_readable = false, at = 17, mode = read_error);

// ------------------------------------------------------------------------------------------
// Allocator::serialize: the allocator section lists the slot count and every free slot, front
// first, with the slot's own generation -- whatever the physical layout of the free ring buffer
// (`ROT` elements are pushed and popped first, so the deque's head is at `ROT` and its contents
// wrap around the end of the buffer).  The decoding direction is `allocde_`.
// ------------------------------------------------------------------------------------------

macro_rules! alloc_ser {
    ($name:ident, $N:expr, $F:expr, rot = $ROT:expr, human_readable = $HR:expr) => {
        #[kani::proof]
        #[kani::unwind(8)]
        #[kani::stub(alloc::fmt::format, stub_format)]
        pub fn $name() {
            const N: usize = $N;
            const F: usize = $F;
            const ROT: usize = $ROT;
            let id0 = ident::<RAB>(vec![3]);
            let id1 = ident::<RAB>(vec![1]);
            // SAFETY: the buffers outlive every use of the references below.
            let refs = unsafe { [id0.as_ref(), id1.as_ref()] };
            let (mut a, free) = any_allocator::<RAB, N, F>(&refs);
            // same logical free list, rotated physical layout
            let mut ring = alloc::collections::VecDeque::with_capacity(F);
            let mut k = 0;
            while k < ROT {
                ring.push_back(usize::MAX);
                k += 1;
            }
            let mut k = 0;
            while k < F - ROT {
                ring.push_back(free[k]);
                k += 1;
            }
            let mut k = 0;
            while k < ROT {
                ring.pop_front();
                k += 1;
            }
            let mut k = F - ROT;
            while k < F {
                ring.push_back(free[k]);
                k += 1;
            }
            kani::cover!(ROT == 0 || ring.as_slices().1.len() == ROT, "the free ring buffer wraps");
            a.free = ring;
            let before = snap_alloc::<RAB, N>(&a);

            let mut ser = Ser::new($HR);
            vassert!(a.serialize(&mut ser).is_ok(), "serializing an allocator succeeds");

            vassert!(ser.len == 5 + 4 * F, "the allocator section has one entry per free slot and nothing else");
            vassert!(ser.toks.kinds[0] == Tok::Tuple.kind(), "struct start");
            vassert!(ser.toks.kinds[1] == Tok::U64(0).kind() && ser.toks.vals[1] == N as u64, "declared length is the number of slots");
            vassert!(ser.toks.kinds[2] == Tok::Seq.kind(), "free list start");
            let mut j = 0;
            while j < F {
                let at = 3 + 4 * j;
                vassert!(ser.toks.kinds[at] == Tok::Tuple.kind() && ser.toks.kinds[at + 3] == Tok::TupleEnd.kind(), "free entry is an identifier");
                vassert!(ser.toks.kinds[at + 1] == Tok::U64(0).kind() && ser.toks.vals[at + 1] == free[j] as u64, "free slots are written front first, each exactly once");
                let mut i = 0;
                while i < N {
                    if i == free[j] {
                        vassert!(ser.toks.kinds[at + 2] == Tok::U64(0).kind() && ser.toks.vals[at + 2] == before[i].generation, "a free slot is written with its own generation");
                    }
                    i += 1;
                }
                j += 1;
            }
            vassert!(ser.toks.kinds[3 + 4 * F] == Tok::SeqEnd.kind() && ser.toks.kinds[4 + 4 * F] == Tok::TupleEnd.kind(), "free list and struct are closed");
            kani::cover!(true, "reached end");
        }
    };
}

alloc_ser!(allocser_q_n3_f3_rot2, 3, 3, rot = 2, human_readable = false);
alloc_ser!(allocser_t_n3_f2_rot1_hr, 3, 2, rot = 1, human_readable = true);
alloc_ser!(allocser_t_n2_f0, 2, 0, rot = 0, human_readable = false);
alloc_ser!(allocser_t_n4_f4_rot3, 4, 4, rot = 3, human_readable = false);

// ------------------------------------------------------------------------------------------
// archetype::Identifier: accepted exactly when the padding bits are clear
// ------------------------------------------------------------------------------------------

macro_rules! ident_decode {
    ($name:ident, $R:ty, bytes = $NB:expr, len = $LEN:expr) => {
        #[kani::proof]
        #[kani::unwind(6)]
        #[kani::stub(alloc::fmt::format, stub_format)]
        pub fn $name() {
            let bytes: [u8; $NB] = kani::any();
            let mut toks = Stream::new();
            toks.set(0, Tok::Tuple);
            let mut i = 0;
            while i < $NB {
                toks.set(1 + i, Tok::U8(bytes[i]));
                i += 1;
            }
            toks.set(1 + $NB, Tok::TupleEnd);
            let mut de = De::new(toks, 2 + $NB, true);
            let padding_clear = $LEN % 8 == 0 || $NB == 0 || (bytes[$NB - 1] as u32) >> ($LEN % 8) == 0;
            match archetype::Identifier::<$R>::deserialize(&mut de) {
                Ok(id) => {
                    vassert!(padding_clear, "an identifier with set padding bits is rejected");
                    // SAFETY: the buffer is live.
                    let s = unsafe { id.as_slice() };
                    let mut i = 0;
                    while i < $NB {
                        vassert!(s[i] == bytes[i], "decoded identifier holds the given bytes");
                        i += 1;
                    }
                    // round trip
                    let mut ser = Ser::new(true);
                    vassert!(id.serialize(&mut ser).is_ok() && ser.len == 2 + $NB, "identifier serializes to its bytes");
                    let mut i = 0;
                    while i < $NB {
                        vassert!(ser.toks.get(1 + i) == Tok::U8(bytes[i]), "serialized bytes equal the identifier's");
                        i += 1;
                    }
                }
                Result::Err(_) => vassert!(!padding_clear, "an identifier with clear padding bits is accepted"),
            }
            kani::cover!(padding_clear, "accepted");
            kani::cover!(!padding_clear || $LEN % 8 == 0, "rejected");
        }
    };
}

ident_decode!(identde_q_dbwa, RDBWA, bytes = 1, len = 4);
ident_decode!(identde_q_r9, R9, bytes = 2, len = 9);
ident_decode!(identde_q_r8, R8, bytes = 1, len = 8);
ident_decode!(identde_t_r0, R0, bytes = 0, len = 0);
ident_decode!(identde_t_r1, R1, bytes = 1, len = 1);


// ------------------------------------------------------------------------------------------
// Allocator section of a serialized world: `from_serialized_parts` on arbitrary (untrusted)
// identifiers, and serialize -> deserialize of a valid allocator.
// ------------------------------------------------------------------------------------------

use super::world::*;
use crate::{
    archetypes::Archetypes,
    entity::allocator::{
        Allocator,
        DeserializeAllocator,
        Location,
    },
    registry::Registry,
};
use serde::de::DeserializeSeed;

/// A table of two archetypes (component sets {A,B} and {A}) whose identifier columns hold the
/// given, completely arbitrary identifiers.
fn table_with_ids<const N1: usize, const N2: usize>(
    ids1: &[entity::Identifier; N1],
    ids2: &[entity::Identifier; N2],
) -> Archetypes<RAB> {
    let bits1 = [true, true];
    let bits2 = [true, false];
    let id1 = ident::<RAB>(bits_to_bytes(&bits1));
    let id2 = ident::<RAB>(bits_to_bytes(&bits2));
    // SAFETY: the buffers are moved into the archetypes below and live as long as the table.
    let (r1, r2) = unsafe { (id1.as_ref(), id2.as_ref()) };
    let a1 = any_archetype::<RAB>(id1, &bits1, N1, N1, ids1);
    let a2 = any_archetype::<RAB>(id2, &bits2, N2, N2, ids2);
    let mut table = hashbrown::raw::RawTable::new();
    table.insert(0, a1, |_| 0);
    table.insert(0, a2, |_| 0);
    let mut flookup = hashbrown::HashMap::with_hasher(fnv::FnvBuildHasher::default());
    // SAFETY: the identifier buffers outlive the map.
    unsafe {
        flookup.insert_unique_unchecked(r1.as_slice(), r1);
        flookup.insert_unique_unchecked(r2.as_slice(), r2);
    }
    let tlookup = hashbrown::HashMap::with_hasher(fnv::FnvBuildHasher::default());
    Archetypes::<RAB>::verif_from_parts(table, tlookup, flookup)
}

macro_rules! alloc_untrusted {
    ($name:ident, length = $L:expr, free = $F:expr, stored = ($N1:expr, $N2:expr)) => {
        #[kani::proof]
        #[kani::unwind(12)]
        #[kani::stub(alloc::fmt::format, stub_format)]
        pub fn $name() {
            const L: usize = $L;
            const F: usize = $F;
            const N1: usize = $N1;
            const N2: usize = $N2;
            const T: usize = F + N1 + N2;
            // every identifier in the input is arbitrary: duplicates, out of range, listed both as
            // free and as stored, too few, too many are all just values of these variables
            let mut all = [entity::Identifier::new(0, 0); T];
            let mut i = 0;
            while i < T {
                let index: usize = kani::any();
                kani::assume(index < 8);
                all[i] = entity::Identifier::new(index, kani::any());
                i += 1;
            }
            let mut free = Vec::with_capacity(F);
            let mut i = 0;
            while i < F {
                free.push(all[i]);
                i += 1;
            }
            let mut ids1 = [entity::Identifier::new(0, 0); N1];
            let mut ids2 = [entity::Identifier::new(0, 0); N2];
            let mut i = 0;
            while i < N1 {
                ids1[i] = all[F + i];
                i += 1;
            }
            let mut i = 0;
            while i < N2 {
                ids2[i] = all[F + N1 + i];
                i += 1;
            }
            let archetypes = table_with_ids::<N1, N2>(&ids1, &ids2);

            // reference verdict: every slot 0..L accounted for exactly once
            let mut valid = T == L;
            let mut i = 0;
            while i < T {
                if all[i].index >= L {
                    valid = false;
                }
                let mut j = 0;
                while j < i {
                    if all[j].index == all[i].index {
                        valid = false;
                    }
                    j += 1;
                }
                i += 1;
            }

            match Allocator::<RAB>::verif_from_serialized_parts::<Err>(L, free, &archetypes) {
                Ok(a) => {
                    vassert!(valid, "an input that does not account for every slot exactly once is rejected");
                    vassert!(a.slots.len() == L, "slot table has the declared length");
                    vassert!(alloc_inv(&a), "AllocInv holds for an accepted allocator");
                    vassert!(a.free.len() == F, "free list has the given length");
                    let mut i = 0;
                    while i < F {
                        vassert!(a.free[i] == all[i].index, "free list keeps the given order");
                        vassert!(a.slots[all[i].index].generation == all[i].generation, "freed slots keep their generation");
                        i += 1;
                    }
                    let list = archs(&archetypes);
                    let mut k = 0;
                    while k < 2 {
                        if let Some(arch) = list[k] {
                            vassert!(link_ok(arch, &a), "every stored identifier resolves to its own row");
                        }
                        k += 1;
                    }
                }
                Result::Err(_) => vassert!(!valid, "an input that accounts for every slot exactly once is accepted"),
            }
            kani::cover!(valid || T != L, "accepted input");
            kani::cover!(!valid || T == 0, "rejected input");
            core::mem::forget(archetypes);
        }
    };
}

alloc_untrusted!(allocde_t_l3_f1_s11, length = 3, free = 1, stored = (1, 1));
alloc_untrusted!(allocde_q_l2_f0_s11, length = 2, free = 0, stored = (1, 1));
// more stored identifiers than slots: a duplicate that leaves no slot missing
alloc_untrusted!(allocde_q_l1_f0_s11, length = 1, free = 0, stored = (1, 1));
alloc_untrusted!(allocde_q_l2_f2_s00, length = 2, free = 2, stored = (0, 0));
alloc_untrusted!(allocde_t_l2_f2_s10, length = 2, free = 2, stored = (1, 0));
alloc_untrusted!(allocde_t_l4_f2_s11, length = 4, free = 2, stored = (1, 1));
alloc_untrusted!(allocde_t_l3_f0_s21, length = 3, free = 0, stored = (2, 1));
alloc_untrusted!(allocde_t_l0_f0_s00, length = 0, free = 0, stored = (0, 0));
alloc_untrusted!(allocde_q_l1_f1_s10, length = 1, free = 1, stored = (1, 0));
alloc_untrusted!(allocde_q_l3_f1_s10, length = 3, free = 1, stored = (1, 0));

macro_rules! alloc_roundtrip {
    ($name:ident, free = $F:expr, stored = ($N1:expr, $N2:expr), human_readable = $HR:expr) => {
        #[kani::proof]
        #[kani::unwind(28)] // VecDeque<usize> equality is a memcmp over up to 3 * 8 bytes
        #[kani::stub(alloc::fmt::format, stub_format)]
        pub fn $name() {
            const F: usize = $F;
            const N1: usize = $N1;
            const N2: usize = $N2;
            const S: usize = F + N1 + N2;
            // a valid world's allocator + table (LinkInv), symbolic slot assignment and generations
            let id1 = ident::<RAB>(bits_to_bytes(&[true, true]));
            let id2 = ident::<RAB>(bits_to_bytes(&[true, false]));
            // SAFETY: the buffers outlive the allocator below.
            let (r1, r2) = unsafe { (id1.as_ref(), id2.as_ref()) };
            let (original, ids1, ids2, _free) = any_linked2::<RAB, S, F, N1, N2>(r1, r2, r1);
            // the decoded world has its own archetypes (its own identifier buffers)
            let archetypes = table_with_ids::<N1, N2>(&ids1, &ids2);
            let mut ser = Ser::new($HR);
            vassert!(serde::Serialize::serialize(&original, &mut ser).is_ok(), "a valid allocator serializes");
            let mut de = De::new(ser.toks, ser.len, $HR);
            match DeserializeAllocator::new(&archetypes).deserialize(&mut de) {
                Ok(mut back) => {
                    vassert!(de.pos == ser.len, "the decoder consumes exactly what the encoder wrote");
                    vassert!(back == original, "decoded allocator equals the original (slots, generations, locations by component set and row, free-list order)");
                    vassert!(alloc_inv(&back), "AllocInv holds for the decoded allocator");
                    let list = archs(&archetypes);
                    let mut k = 0;
                    while k < 2 {
                        if let Some(arch) = list[k] {
                            vassert!(link_ok(arch, &back), "every stored identifier resolves to its own row in the decoded world");
                        }
                        k += 1;
                    }
                    // behaves identically afterwards, one step deep: the next identifier issued is the same
                    let mut orig = original;
                    let a = orig.allocate(Location::new(r1, 0));
                    let b = back.allocate(Location::new(r1, 0));
                    vassert!(a == b, "original and decoded allocator issue the same next identifier");
                    core::mem::forget(orig);
                    core::mem::forget(back);
                }
                Result::Err(_) => vassert!(false, "deserializing a serialized allocator succeeds"),
            }
            kani::cover!(true, "reached end");
            core::mem::forget(archetypes);
            core::mem::forget(id1);
            core::mem::forget(id2);
        }
    };
}

// Measured: even the smallest instance (1 free slot, 1 stored row) runs into the 900 s limit: the
// `Serialize` -> token stream -> `DeserializeAllocator` pipeline makes the slot table symbolic for
// the executor.  No instance is kept.  What stays checked for the allocator section of a serialized
// world: `from_serialized_parts` (the function that rebuilds the slot table) on arbitrary inputs,
// including that it keeps the free-list order and the generations of freed slots (`allocde_`).

// ------------------------------------------------------------------------------------------
// Whole-World streams that fit: the empty world.  (a) serialize -> deserialize of an empty world with
// resources reproduces it; (b) the deserialization constructor refuses a registry that lists a
// component twice (C18), like every other constructor.
// ------------------------------------------------------------------------------------------

use crate::world::World;

fn empty_world_stream() -> Stream {
    // (archetypes: empty seq, allocator: (length 0, free: empty seq), resources: empty tuple)
    let mut t = Stream::new();
    let toks = [
        Tok::Tuple,
        Tok::Seq, Tok::SeqEnd,
        Tok::Tuple, Tok::U64(0), Tok::Seq, Tok::SeqEnd, Tok::TupleEnd,
        Tok::Tuple, Tok::TupleEnd,
        Tok::TupleEnd,
    ];
    let mut i = 0;
    while i < toks.len() {
        t.set(i, toks[i]);
        i += 1;
    }
    t.len = toks.len();
    t
}

macro_rules! world_empty_roundtrip {
    ($name:ident, human_readable = $HR:expr) => {
        #[kani::proof]
        #[kani::unwind(12)]
        #[kani::stub(alloc::fmt::format, stub_format)]
        pub fn $name() {
            type Res = crate::Resources!(u8, u32);
            let (r8, r32): (u8, u32) = (kani::any(), kani::any());
            let w = World::<RAB, Res>::with_resources(crate::resources!(r8, r32));
            let mut ser = Ser::new($HR);
            vassert!(serde::Serialize::serialize(&w, &mut ser).is_ok(), "an empty world serializes");
            let mut de = De::new(ser.toks, ser.len, $HR);
            match <World<RAB, Res> as Deserialize>::deserialize(&mut de) {
                Ok(back) => {
                    vassert!(de.pos == ser.len, "the decoder consumes exactly what the encoder wrote");
                    vassert!(back == w, "the decoded empty world equals the original, resources included");
                    vassert!(back.len() == 0 && back.is_empty(), "and is empty");
                    vassert!(*back.verif_resources() == crate::resources!(r8, r32), "resources keep their values and positions");
                    core::mem::forget(back);
                }
                Result::Err(_) => vassert!(false, "deserializing a serialized world succeeds"),
            }
            kani::cover!(true, "reached end");
            core::mem::forget(w);
        }
    };
}

world_empty_roundtrip!(serrt_q_world_empty_resources_compact, human_readable = false);
world_empty_roundtrip!(serrt_t_world_empty_resources_rows, human_readable = true);

macro_rules! dup_deserialize {
    ($name:ident, ($($C:ty),*)) => {
        #[kani::proof]
        #[kani::unwind(12)]
        #[kani::should_panic]
        #[kani::stub(alloc::fmt::format, stub_format)]
        pub fn $name() {
            let t = empty_world_stream();
            let mut de = De::new(t, t.len, false);
            let r = <World<crate::Registry!($($C),*)> as Deserialize>::deserialize(&mut de);
            kani::cover!(true, "MUST-BE-UNREACHABLE: deserialization returned (a world or an error) for a registry with a duplicated component instead of panicking");
            core::mem::forget(r);
        }
    };
}

dup_deserialize!(dupde_q_l3_0_2, (C0, C1, C0));
dup_deserialize!(dupde_t_l2_0_1, (C0, C0));
dup_deserialize!(dupde_t_l9_0_8, (C0, C1, C2, C3, C4, C5, C6, C7, C0));

#[kani::proof]
#[kani::unwind(12)]
#[kani::stub(alloc::fmt::format, stub_format)]
pub fn nodupde_q_l3() {
    let t = empty_world_stream();
    let mut de = De::new(t, t.len, false);
    match <World<crate::Registry!(C0, C1, C2)> as Deserialize>::deserialize(&mut de) {
        Ok(w) => {
            vassert!(w.is_empty(), "the empty stream decodes to an empty world for a duplicate-free registry");
            core::mem::forget(w);
        }
        Result::Err(_) => vassert!(false, "the empty stream is accepted for a duplicate-free registry"),
    }
    kani::cover!(true, "reached end");
}
