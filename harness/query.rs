// C03: filters, views, the result iterator and single-entity queries.
//
// * `filt_`: every filter form against a *symbolic identifier* (all component sets at once),
//   compared with a reference predicate evaluated on the identifier's bits.
// * `iter_`: `query::result::Iter` over a table of two archetypes: every yielded reference is
//   compared by *address* with the cell it must point at (so a shifted column is caught even when
//   values coincide), optional views are `None` exactly when the bit is clear, every matching
//   entity is yielded exactly once, `size_hint` brackets the remaining count before every `next`.
// * `entryq_`: `Entry::query` for a symbolic row.

use super::{
    arch::*,
    common::*,
    world::*,
};
use crate::{
    archetype,
    archetype::Archetype,
    archetypes::Archetypes,
    entity,
    entity::allocator::{
        Allocator,
        Location,
    },
    query::{
        filter,
        filter::{
            And,
            Has,
            Not,
            Or,
        },
        result,
        view,
        Query,
    },
    registry::{
        contains::filter::Sealed as ContainsFilterSealed,
        Registry,
    },
    resource,
    world::{
        Entry,
        World,
    },
};
use alloc::{
    vec,
    vec::Vec,
};

// ------------------------------------------------------------------------------------------
// Filters on a symbolic identifier
// ------------------------------------------------------------------------------------------

macro_rules! fcase {
    ($R:ty, $r:expr, $F:ty, $pred:expr, $label:literal) => {
        // SAFETY: `$r` refers to a live identifier buffer of registry `$R`.
        let got = unsafe { <$R as ContainsFilterSealed<$F, _>>::filter($r) };
        vassert!(got == $pred, $label);
    };
}

#[kani::proof]
#[kani::unwind(6)]
pub fn filt_q_dbwa_all_forms() {
    let byte: u8 = kani::any();
    kani::assume(byte < 16); // padding bits clear: the only validity condition of an identifier
    let id = ident::<RDBWA>(vec![byte]);
    // SAFETY: `id` outlives `r`.
    let r = unsafe { id.as_ref() };
    let d = byte & 1 != 0;
    let b = byte & 2 != 0;
    let w = byte & 4 != 0;
    let a = byte & 8 != 0;
    fcase!(RDBWA, r, filter::None, true, "None accepts everything");
    fcase!(RDBWA, r, Has<D>, d, "Has<first>");
    fcase!(RDBWA, r, Has<B>, b, "Has<second>");
    fcase!(RDBWA, r, Has<W>, w, "Has<third>");
    fcase!(RDBWA, r, Has<A>, a, "Has<last>");
    fcase!(RDBWA, r, Not<Has<W>>, !w, "Not");
    fcase!(RDBWA, r, And<Has<D>, Has<A>>, d && a, "And");
    fcase!(RDBWA, r, Or<Has<B>, Has<W>>, b || w, "Or");
    fcase!(RDBWA, r, And<Or<Has<A>, Has<D>>, Not<Has<B>>>, (a || d) && !b, "nested And/Or/Not");
    fcase!(RDBWA, r, Not<And<Has<A>, Not<Or<Has<B>, Has<D>>>>>, !(a && !(b || d)), "nested two deep");
    fcase!(RDBWA, r, &B, b, "& view as filter");
    fcase!(RDBWA, r, &mut W, w, "&mut view as filter");
    fcase!(RDBWA, r, Option<&B>, true, "Option<&> as filter accepts everything");
    fcase!(RDBWA, r, Option<&mut A>, true, "Option<&mut> as filter accepts everything");
    fcase!(RDBWA, r, entity::Identifier, true, "Identifier as filter accepts everything");
    fcase!(RDBWA, r, view::Null, true, "empty views as filter accept everything");
    fcase!(RDBWA, r, crate::query::Views!(&A, &mut D), a && d, "view list = conjunction of its non-optional views");
    fcase!(RDBWA, r, crate::query::Views!(&mut B, Option<&A>, entity::Identifier, &W), b && w, "mixed view list");
    fcase!(RDBWA, r, And<crate::query::Views!(&D), Not<Has<A>>>, d && !a, "views and filter combined as the iterator does");
    kani::cover!(byte == 0, "empty component set");
    kani::cover!(byte == 15, "full component set");
}

#[kani::proof]
#[kani::unwind(6)]
pub fn filt_q_r9_byte_boundary() {
    let b0: u8 = kani::any();
    let b1: u8 = kani::any();
    kani::assume(b1 < 2);
    let id = ident::<R9>(vec![b0, b1]);
    // SAFETY: `id` outlives `r`.
    let r = unsafe { id.as_ref() };
    let c0 = b0 & 1 != 0;
    let c6 = b0 & 64 != 0;
    let c7 = b0 & 128 != 0;
    let c8 = b1 & 1 != 0;
    fcase!(R9, r, Has<C0>, c0, "bit 0");
    fcase!(R9, r, Has<C7>, c7, "bit 7: last bit of the first byte");
    fcase!(R9, r, Has<C8>, c8, "bit 8: first bit of the second byte");
    fcase!(R9, r, And<Has<C7>, Not<Has<C8>>>, c7 && !c8, "straddling the byte boundary");
    fcase!(R9, r, Or<Has<C8>, Has<C6>>, c8 || c6, "Or across bytes");
    fcase!(R9, r, crate::query::Views!(&C8, &mut C0), c8 && c0, "views across bytes");
    kani::cover!(c8 && !c7, "only the second byte's bit");
}

// ------------------------------------------------------------------------------------------
// Table of two archetypes without an allocator (queries never consult it)
// ------------------------------------------------------------------------------------------

pub fn any_table2<R, const N1: usize, const N2: usize>(
    bits1: &[bool],
    bits2: &[bool],
) -> (Archetypes<R>, [entity::Identifier; N1], [entity::Identifier; N2])
where
    R: Registry + Cols,
{
    any_table2_with::<R, N1, N2>(bits1, bits2, false)
}

/// With `concrete_ids` the identifier columns hold the concrete identifiers (0,0), (1,0), ...:
/// used where the identity of each yielded item must be decidable by the symbolic executor.
pub fn any_table2_with<R, const N1: usize, const N2: usize>(
    bits1: &[bool],
    bits2: &[bool],
    concrete_ids: bool,
) -> (Archetypes<R>, [entity::Identifier; N1], [entity::Identifier; N2])
where
    R: Registry + Cols,
{
    // identifiers: symbolic, pairwise distinct (LinkInv: one identifier per stored entity)
    let mut ids1 = [entity::Identifier::new(0, 0); N1];
    let mut ids2 = [entity::Identifier::new(0, 0); N2];
    let mut i = 0;
    while i < N1 {
        ids1[i] = if concrete_ids { entity::Identifier::new(i, 0) } else { entity::Identifier::new(kani::any(), kani::any()) };
        let mut j = 0;
        while j < i {
            kani::assume(ids1[j] != ids1[i]);
            j += 1;
        }
        i += 1;
    }
    let mut i = 0;
    while i < N2 {
        ids2[i] = if concrete_ids { entity::Identifier::new(N1 + i, 0) } else { entity::Identifier::new(kani::any(), kani::any()) };
        let mut j = 0;
        while j < i {
            kani::assume(ids2[j] != ids2[i]);
            j += 1;
        }
        let mut j = 0;
        while j < N1 {
            kani::assume(ids1[j] != ids2[i]);
            j += 1;
        }
        i += 1;
    }
    let id1 = ident::<R>(bits_to_bytes(bits1));
    let id2 = ident::<R>(bits_to_bytes(bits2));
    // SAFETY: the buffers are moved into the archetypes below and live as long as the table.
    let (r1, r2) = unsafe { (id1.as_ref(), id2.as_ref()) };
    let a1 = any_archetype::<R>(id1, bits1, N1, N1, &ids1);
    let a2 = any_archetype::<R>(id2, bits2, N2, N2 + 1, &ids2);
    let mut table = hashbrown::raw::RawTable::new();
    table.insert(0, a1, |_| 0);
    table.insert(0, a2, |_| 0);
    let mut flookup = hashbrown::HashMap::with_hasher(fnv::FnvBuildHasher::default());
    // SAFETY: the identifier buffers outlive the map.
    unsafe {
        flookup.insert_unique_unchecked(r1.as_slice(), r1);
        flookup.insert_unique_unchecked(r2.as_slice(), r2);
    }
    let tlookup = hashbrown::HashMap::with_hasher(fnv::FnvBuildHasher::default());
    (Archetypes::<R>::verif_from_parts(table, tlookup, flookup), ids1, ids2)
}

/// Raw facts about the two archetypes of a table built by `any_table2`, captured before iterating.
pub struct Facts<const N1: usize, const N2: usize> {
    pub cols1: Vec<(*mut u8, usize)>,
    pub cols2: Vec<(*mut u8, usize)>,
}

pub fn facts<R: Registry, const N1: usize, const N2: usize>(archetypes: &Archetypes<R>) -> Facts<N1, N2> {
    let list = archs(archetypes);
    let (a1, a2) = match (list[0], list[1]) {
        (Some(a), Some(b)) => (a, b),
        _ => {
            vassert!(false, "table has two archetypes (harness bug)");
            unreachable!()
        }
    };
    Facts {
        cols1: a1.verif_raw().2.clone(),
        cols2: a2.verif_raw().2.clone(),
    }
}

// view checkers: `$which` = registry position of the component
macro_rules! vcheck {
    (id $v:ident, $R:ty, $bits:expr, $cols:expr, $row:expr, $id:expr) => {
        vassert!($v == $id, "Identifier view carries the row's own identifier");
    };
    (req $which:literal $v:ident, $R:ty, $bits:expr, $cols:expr, $row:expr, $id:expr) => {
        // SAFETY: row in bounds.
        let want = unsafe { <$R as Cols>::cell_addr($bits, $cols, $row, $which) };
        vassert!(!want.is_null(), "a required view is only yielded for archetypes that have the component");
        vassert!(((&*$v) as *const _ as *const u8) == want, "required view points at this entity's cell of exactly that component");
    };
    (opt $which:literal $v:ident, $R:ty, $bits:expr, $cols:expr, $row:expr, $id:expr) => {
        // SAFETY: row in bounds.
        let want = unsafe { <$R as Cols>::cell_addr($bits, $cols, $row, $which) };
        match &$v {
            Some(x) => {
                vassert!($bits[$which], "optional view is Some only when the component is present");
                vassert!(((&**x) as *const _ as *const u8) == want, "optional view points at this entity's cell of exactly that component");
            }
            None => vassert!(!$bits[$which], "optional view is None only when the component is absent"),
        }
    };
}

macro_rules! iter_step {
    ($name:ident, $R:ty, t1 = [$($b1:expr),*] x $N1:expr, t2 = [$($b2:expr),*] x $N2:expr,
     views = ($($V:ty),*), filter = $F:ty, matches = $pred:expr,
     bind = ($($bind:ident),*), checks = [$(($kind:ident $($arg:tt)*)),*]) => {
        #[kani::proof]
        #[kani::unwind(8)]
        pub fn $name() {
            const N1: usize = $N1;
            const N2: usize = $N2;
            let bits1 = [$($b1),*];
            let bits2 = [$($b2),*];
            let (mut archetypes, ids1, ids2) = any_table2_with::<$R, N1, N2>(&bits1, &bits2, true);
            let f = facts::<$R, N1, N2>(&archetypes);
            let pred: fn(&[bool]) -> bool = $pred;
            let expected = (if pred(&bits1) { N1 } else { 0 }) + (if pred(&bits2) { N2 } else { 0 });
            let mut seen1 = [false; N1];
            let mut seen2 = [false; N2];
            let mut it: result::Iter<$R, $F, crate::query::Views!($($V),*), _> = result::Iter::new(archetypes.iter_mut());
            let mut yielded = 0;
            let mut step = 0;
            while step < N1 + N2 + 1 {
                let (lo, hi) = it.size_hint();
                let remaining = expected - yielded;
                vassert!(lo <= remaining, "size_hint lower bound never exceeds the remaining count");
                if let Some(h) = hi {
                    vassert!(remaining <= h, "size_hint upper bound never undercuts the remaining count");
                }
                match it.next() {
                    Some(item) => {
                        vassert!(yielded < expected, "no result beyond the matching entities");
                        yielded += 1;
                        let crate::query::result!($($bind),*) = item;
                        // which entity is it?  (the first view of every instance is the identifier)
                        let id: entity::Identifier = iter_step!(@first $($bind),*);
                        let mut located = false;
                        let mut r = 0;
                        while r < N1 {
                            if ids1[r] == id {
                                vassert!(pred(&bits1), "entity of a non-matching archetype yielded");
                                vassert!(!seen1[r], "entity yielded twice");
                                seen1[r] = true;
                                located = true;
                                $( vcheck!($kind $($arg)*, $R, &bits1, &f.cols1, r, ids1[r]); )*
                            }
                            r += 1;
                        }
                        let mut r = 0;
                        while r < N2 {
                            if ids2[r] == id {
                                vassert!(pred(&bits2), "entity of a non-matching archetype yielded");
                                vassert!(!seen2[r], "entity yielded twice");
                                seen2[r] = true;
                                located = true;
                                $( vcheck!($kind $($arg)*, $R, &bits2, &f.cols2, r, ids2[r]); )*
                            }
                            r += 1;
                        }
                        vassert!(located, "yielded identifier belongs to a stored entity");
                    }
                    None => {
                        vassert!(yielded == expected, "iterator ends only after every matching entity was yielded");
                    }
                }
                step += 1;
            }
            vassert!(yielded == expected, "exactly the matching entities were yielded");
            kani::cover!(expected > 0, "some entity matches");
            core::mem::forget(archetypes);
        }
    };
    (@first $first:ident $(, $rest:ident)*) => { $first };
}

// Measured: even with Identifier-only views, two archetypes of one row each and concrete
// identifiers, `result::Iter` over a table does not fit in 20 GB (its state is read back from the
// table on every `next`, so every step is symbolic for the executor).  No instance is kept; the
// three per-archetype steps it performs (filter, view+reshape, iterate) are checked by `filt_` and
// `view_` below, and its chaining logic is outside the claim.

// ------------------------------------------------------------------------------------------
// Entry::query for a symbolic row of a concrete archetype
// ------------------------------------------------------------------------------------------

macro_rules! entryq_step {
    ($name:ident, $R:ty, t1 = [$($b1:expr),*] x $N1:expr, t2 = [$($b2:expr),*] x $N2:expr,
     views = ($($V:ty),*), filter = $F:ty, matches = $pred:expr,
     bind = ($($bind:ident),*), checks = [$(($kind:ident $($arg:tt)*)),*]) => {
        #[kani::proof]
        #[kani::unwind(12)]
        pub fn $name() {
            const N1: usize = $N1;
            const N2: usize = $N2;
            let bits1 = [$($b1),*];
            let bits2 = [$($b2),*];
            let (archetypes, ids1, _ids2) = any_table2::<$R, N1, N2>(&bits1, &bits2);
            let f = facts::<$R, N1, N2>(&archetypes);
            let arch_ref = match archs(&archetypes)[0] {
                // SAFETY: the archetype outlives the reference (it is owned by the world below).
                Some(a) => unsafe { a.identifier() },
                None => unreachable!(),
            };
            let mut w = World::<$R, resource::Null>::verif_from_raw_parts(
                archetypes,
                Allocator::new(),
                N1 + N2,
                resource::Null,
            );
            let row: usize = kani::any();
            kani::assume(row < N1);
            let pred: fn(&[bool]) -> bool = $pred;
            let mut entry = Entry::new(&mut w, Location::new(arch_ref, row));
            match entry.query(Query::<crate::query::Views!($($V),*), $F>::new()) {
                Some(item) => {
                    vassert!(pred(&bits1), "entry query answers only when filter and views match the entity");
                    let crate::query::result!($($bind),*) = item;
                    $( vcheck!($kind $($arg)*, $R, &bits1, &f.cols1, row, ids1[row]); )*
                }
                None => vassert!(!pred(&bits1), "entry query refuses only when filter or views do not match"),
            }
            kani::cover!(true, "reached end");
            core::mem::forget(w);
        }
    };
}

entryq_step!(entryq_q_dbwa_opt_then_later, RDBWA, t1 = [true, true, true, true] x 2, t2 = [false, false, false, false] x 0,
    views = (entity::Identifier, Option<&B>, &mut A, Option<&D>, &W), filter = filter::None, matches = |b| b[3] && b[2],
    bind = (id, ob, a, od, w), checks = [(id id), (opt 1 ob), (req 3 a), (opt 0 od), (req 2 w)]);
entryq_step!(entryq_t_dbwa_absent_opt, RDBWA, t1 = [true, false, true, true] x 2, t2 = [false, false, false, false] x 0,
    views = (entity::Identifier, Option<&mut B>, &A, Option<&W>), filter = Has<D>, matches = |b| b[3] && b[0],
    bind = (id, ob, a, ow), checks = [(id id), (opt 1 ob), (req 3 a), (opt 2 ow)]);
entryq_step!(entryq_t_ab_refused, RAB, t1 = [true, false] x 2, t2 = [false, true] x 1,
    views = (entity::Identifier, &A), filter = Has<B>, matches = |b| b[0] && b[1],
    bind = (id, a), checks = [(id id), (req 0 a)]);
entryq_step!(entryq_t_azd_opt_present, RAZD, t1 = [true, true, true] x 3, t2 = [false, false, false] x 0,
    views = (entity::Identifier, Option<&A>, Option<&Z>, &D), filter = filter::None, matches = |b| b[2],
    bind = (id, oa, oz, d), checks = [(id id), (opt 0 oa), (opt 1 oz), (req 2 d)]);

// ------------------------------------------------------------------------------------------
// Per-archetype results: Archetype::view -> reshape -> iterate (the three real steps the result
// iterator performs for each matching archetype), on a local archetype.
// ------------------------------------------------------------------------------------------

use crate::{
    hlist::Reshape,
    query::result::Results,
    registry::ContainsQuery,
};

fn view_items<'a, R, V, F, I>(arch: &'a mut Archetype<R>) -> <V::Results as Results>::Iterator
where
    V: view::Views<'a>,
    R: ContainsQuery<'a, F, V, I>,
{
    // SAFETY: callers only instantiate view lists whose required components the archetype has.
    unsafe {
        arch.view::<V, (
            R::ViewsContainments,
            R::ViewsIndices,
            R::ViewsCanonicalContainments,
        )>()
    }
    .reshape()
    .into_iterator()
}

macro_rules! view_step {
    ($name:ident, $R:ty, [$($b:expr),*] x $N:expr,
     views = ($($V:ty),*), bind = ($($bind:ident),*), checks = [$(($kind:ident $($arg:tt)*)),*]) => {
        #[kani::proof]
        #[kani::unwind(8)]
        pub fn $name() {
            const N: usize = $N;
            let bits = [$($b),*];
            let ids = {
                let mut ids = [entity::Identifier::new(0, 0); N];
                let mut r = 0;
                while r < N {
                    ids[r] = entity::Identifier::new(kani::any(), kani::any());
                    r += 1;
                }
                ids
            };
            let mut arch = any_archetype::<$R>(ident::<$R>(bits_to_bytes(&bits)), &bits, N, N + 1, &ids);
            let cols = arch.verif_raw().2.clone();
            let mut it = view_items::<$R, crate::query::Views!($($V),*), filter::None, _>(&mut arch);
            let mut r = 0;
            while r < N + 1 {
                let (lo, hi) = it.size_hint();
                vassert!(lo <= N - (if r < N { r } else { N }), "size_hint lower bound never exceeds the remaining count");
                if let Some(h) = hi {
                    vassert!(N - (if r < N { r } else { N }) <= h, "size_hint upper bound never undercuts the remaining count");
                }
                match it.next() {
                    Some(item) => {
                        vassert!(r < N, "no result beyond the archetype's rows");
                        let crate::query::result!($($bind),*) = item;
                        $( vcheck!($kind $($arg)*, $R, &bits, &cols, r, ids[r]); )*
                    }
                    None => vassert!(r == N, "one result per row, in row order"),
                }
                r += 1;
            }
            kani::cover!(true, "reached end");
            core::mem::forget(arch);
        }
    };
}

view_step!(view_q_ab_id_a_optb, RAB, [true, true] x 2,
    views = (entity::Identifier, &A, Option<&B>), bind = (id, a, ob), checks = [(id id), (req 0 a), (opt 1 ob)]);
view_step!(view_q_dbwa_gap, RDBWA, [true, false, true, true] x 2,
    views = (entity::Identifier, Option<&B>, &W, Option<&A>), bind = (id, ob, w, oa), checks = [(id id), (opt 1 ob), (req 2 w), (opt 3 oa)]);
view_step!(view_q_dbwa_optmut_then_later, RDBWA, [true, true, true, true] x 2,
    views = (entity::Identifier, Option<&mut D>, &B, Option<&mut W>, &mut A), bind = (id, od, bb, ow, a), checks = [(id id), (opt 0 od), (req 1 bb), (opt 2 ow), (req 3 a)]);
view_step!(view_t_dbwa_rev_order, RDBWA, [true, true, true, true] x 2,
    views = (entity::Identifier, &A, Option<&mut W>, &B, Option<&D>), bind = (id, a, ow, bb, od), checks = [(id id), (req 3 a), (opt 2 ow), (req 1 bb), (opt 0 od)]);
view_step!(view_t_dbwa_absent_opts, RDBWA, [false, true, false, true] x 3,
    views = (Option<&mut D>, entity::Identifier, &mut A, Option<&W>, &B), bind = (od, id, a, ow, bb), checks = [(opt 0 od), (id id), (req 3 a), (opt 2 ow), (req 1 bb)]);
view_step!(view_t_azd_zst, RAZD, [true, true, false] x 2,
    views = (entity::Identifier, &Z, Option<&A>, Option<&D>), bind = (id, z, oa, od), checks = [(id id), (req 1 z), (opt 0 oa), (opt 2 od)]);
view_step!(view_t_ab_empty_views, RAB, [true, false] x 2,
    views = (), bind = (), checks = []);
view_step!(view_t_ab_n0, RAB, [true, true] x 0,
    views = (entity::Identifier, &mut A, &mut B), bind = (id, a, bb), checks = [(id id), (req 0 a), (req 1 bb)]);

// ------------------------------------------------------------------------------------------
// C09: per-archetype parallel results, driven without threads through rayon's own plumbing:
// `with_producer(callback)`, the callback splits the producer at *symbolic* indices (two levels)
// and iterates the pieces.  Rayon's splitting policy is over-approximated by "any split points".
// ------------------------------------------------------------------------------------------

use crate::{
    query::{
        result::ParResults,
        view::ParViews,
    },
    registry::ContainsParQuery,
};
use rayon::iter::{
    plumbing::{
        Producer,
        ProducerCallback,
    },
    IndexedParallelIterator,
    ParallelIterator,
};

fn par_items<'a, R, V, F, I>(arch: &'a mut Archetype<R>) -> <V::ParResults as ParResults>::Iterator
where
    V: ParViews<'a>,
    R: ContainsParQuery<'a, F, V, I>,
{
    // SAFETY: callers only instantiate view lists whose required components the archetype has.
    unsafe { arch.par_view::<V, _, _, _>() }
        .reshape()
        .into_parallel_iterator()
}

struct SplitTwice<F> {
    first: usize,
    second: usize,
    check: F,
}

impl<T, F> ProducerCallback<T> for SplitTwice<F>
where
    F: FnMut(usize, T),
{
    type Output = usize;

    fn callback<P>(mut self, producer: P) -> usize
    where
        P: Producer<Item = T>,
    {
        // [0, second) [second, first) [first, len)
        let (left, right) = producer.split_at(self.first);
        let (ll, lr) = left.split_at(self.second);
        let mut k = 0;
        for item in ll.into_iter() {
            (self.check)(k, item);
            k += 1;
        }
        vassert!(k == self.second, "left-left piece has exactly `second` items");
        for item in lr.into_iter() {
            (self.check)(k, item);
            k += 1;
        }
        vassert!(k == self.first, "left piece has exactly `first` items");
        for item in right.into_iter() {
            (self.check)(k, item);
            k += 1;
        }
        k
    }
}

macro_rules! par_step {
    ($name:ident, $R:ty, [$($b:expr),*] x $N:expr,
     views = ($($V:ty),*), bind = ($($bind:ident),*), checks = [$(($kind:ident $($arg:tt)*)),*]) => {
        #[kani::proof]
        #[kani::unwind(8)]
        pub fn $name() {
            const N: usize = $N;
            let bits = [$($b),*];
            let ids = {
                let mut ids = [entity::Identifier::new(0, 0); N];
                let mut r = 0;
                while r < N {
                    ids[r] = entity::Identifier::new(kani::any(), kani::any());
                    r += 1;
                }
                ids
            };
            let mut arch = any_archetype::<$R>(ident::<$R>(bits_to_bytes(&bits)), &bits, N, N + 1, &ids);
            let cols = arch.verif_raw().2.clone();
            let first: usize = kani::any();
            let second: usize = kani::any();
            kani::assume(first <= N && second <= first);
            let it = par_items::<$R, crate::query::Views!($($V),*), filter::None, _>(&mut arch);
            vassert!(IndexedParallelIterator::len(&it) == N, "parallel results have one item per row");
            vassert!(it.opt_len() == Some(N), "opt_len agrees with len");
            let mut visited = [false; N];
            let total = it.with_producer(SplitTwice {
                first,
                second,
                check: |k: usize, item: crate::query::Views!($($V),*)| {
                    vassert!(k < N, "no item beyond the archetype's rows");
                    vassert!(!visited[k], "each row visited once");
                    visited[k] = true;
                    let crate::query::result!($($bind),*) = item;
                    $( vcheck!($kind $($arg)*, $R, &bits, &cols, k, ids[k]); )*
                },
            });
            vassert!(total == N, "the pieces together visit every row exactly once, in sequential order");
            kani::cover!(second > 0 && second < first && first < N || N < 3, "three non-empty pieces");
            kani::cover!(first == 0, "empty left piece");
            core::mem::forget(arch);
        }
    };
}

par_step!(par_q_ab_id_muta_optb, RAB, [true, false] x 3,
    views = (entity::Identifier, &mut A, Option<&mut B>), bind = (id, a, ob), checks = [(id id), (req 0 a), (opt 1 ob)]);
par_step!(par_q_dbwa_gap, RDBWA, [true, false, true, true] x 2,
    views = (entity::Identifier, Option<&B>, &mut W, Option<&mut A>), bind = (id, ob, w, oa), checks = [(id id), (opt 1 ob), (req 2 w), (opt 3 oa)]);
par_step!(par_q_dbwa_optmut_present_then_later, RDBWA, [true, true, false, true] x 2,
    views = (Option<&mut D>, entity::Identifier, &mut B, Option<&mut A>), bind = (od, id, bb, oa), checks = [(opt 0 od), (id id), (req 1 bb), (opt 3 oa)]);
par_step!(par_t_dbwa_rev_order, RDBWA, [true, true, true, true] x 3,
    views = (&A, Option<&mut W>, entity::Identifier, &mut B, Option<&D>), bind = (a, ow, id, bb, od), checks = [(req 3 a), (opt 2 ow), (id id), (req 1 bb), (opt 0 od)]);
par_step!(par_t_dbwa_absent_mut_opts, RDBWA, [false, true, false, false] x 3,
    views = (Option<&mut D>, entity::Identifier, Option<&mut A>, Option<&W>, &B), bind = (od, id, oa, ow, bb), checks = [(opt 0 od), (id id), (opt 3 oa), (opt 2 ow), (req 1 bb)]);
par_step!(par_t_azd_zst_n1, RAZD, [true, true, false] x 1,
    views = (entity::Identifier, &Z, Option<&mut A>), bind = (id, z, oa), checks = [(id id), (req 1 z), (opt 0 oa)]);
par_step!(par_t_ab_n0, RAB, [true, true] x 0,
    views = (entity::Identifier, &mut A, &mut B), bind = (id, a, bb), checks = [(id id), (req 0 a), (req 1 bb)]);

// ------------------------------------------------------------------------------------------
// Bit indices of entry views (used by query-time `Entries` to filter on the super views): each
// view's index is its component's position in the registry, whatever kinds precede it.
// ------------------------------------------------------------------------------------------

use crate::registry::{
    contains::views::{
        ContainsViewsOuter,
        Sealed as ContainsViewsSealed,
    },
    ContainsViews,
};

fn view_indices<'a, R, V, I>() -> V::Indices
where
    V: view::Views<'a>,
    R: ContainsViews<'a, V, I>,
{
    <<R as ContainsViewsSealed<'a, V, I>>::Viewable as ContainsViewsOuter<
        'a,
        V,
        <R as ContainsViewsSealed<'a, V, I>>::Containments,
        <R as ContainsViewsSealed<'a, V, I>>::Indices,
        <R as ContainsViewsSealed<'a, V, I>>::ReshapeIndices,
    >>::indices()
}

#[kani::proof]
#[kani::unwind(6)]
pub fn indices_q_dbwa_every_kind_before() {
    // D=0, B=1, W=2, A=3.  Every view kind in front of a later view, in requested (not registry) order.
    let crate::query::result!(a, d) = view_indices::<'static, RDBWA, crate::query::Views!(&A, &D), _>();
    vassert!(a == 3 && d == 0, "indices after a & view");
    let crate::query::result!(a, d) = view_indices::<'static, RDBWA, crate::query::Views!(&A, &mut D), _>();
    vassert!(a == 3 && d == 0, "indices after a &mut view");
    let crate::query::result!(a, d) = view_indices::<'static, RDBWA, crate::query::Views!(&A, Option<&D>), _>();
    vassert!(a == 3 && d == 0, "indices after an Option<&> view");
    let crate::query::result!(a, d) = view_indices::<'static, RDBWA, crate::query::Views!(&A, Option<&mut D>), _>();
    vassert!(a == 3 && d == 0, "indices after an Option<&mut> view");
    let crate::query::result!(w, b, d, a) = view_indices::<'static, RDBWA, crate::query::Views!(&mut W, Option<&mut B>, Option<&D>, &A), _>();
    vassert!(w == 2 && b == 1 && d == 0 && a == 3, "four views, every kind, scrambled order");
    let crate::query::result!(w, b) = view_indices::<'static, RDBWA, crate::query::Views!(Option<&mut W>, Option<&mut B>), _>();
    vassert!(w == 2 && b == 1, "two optional mutable views in the middle of the registry");
    kani::cover!(true, "reached end");
}

#[kani::proof]
#[kani::unwind(6)]
pub fn indices_q_r9_across_the_byte_boundary() {
    let crate::query::result!(c8, c0, c7) = view_indices::<'static, R9, crate::query::Views!(&C8, Option<&mut C0>, &mut C7), _>();
    vassert!(c8 == 8 && c0 == 0 && c7 == 7, "indices in a nine-component registry");
    let crate::query::result!(c8, c3) = view_indices::<'static, R9, crate::query::Views!(Option<&C8>, Option<&mut C3>), _>();
    vassert!(c8 == 8 && c3 == 3, "optional views, second byte");
    kani::cover!(true, "reached end");
}

// ------------------------------------------------------------------------------------------
// Query-time `Entries`: `entries.entry(id).query(sub views, filter)` — the run-time-index filter
// (query/view/contains/filter.rs), the maybe-uninit super views and the sub-view extraction
// (query/view/subset.rs), for every legal pairing of sub- and super-view kinds instantiated below.
// ------------------------------------------------------------------------------------------

use crate::{
    entity::allocator::Slot,
    query::Entries,
};

fn no_bits<R: Registry>() -> Vec<bool> {
    vec![false; R::LEN]
}

macro_rules! entries_step {
    ($name:ident, $R:ty, t1 = [$($b1:expr),*] x $N1:expr,
     super_views = ($($SV:ty),*), sub_views = ($($V:ty),*), filter = $F:ty, matches = $pred:expr,
     bind = ($($bind:ident),*), checks = [$(($kind:ident $($arg:tt)*)),*]) => {
        #[kani::proof]
        #[kani::unwind(12)]
        pub fn $name() {
            const N1: usize = $N1;
            let bits1 = [$($b1),*];
            let (archetypes, ids1, _ids2) = any_table2_with::<$R, N1, 0>(&bits1, &no_bits::<$R>(), true);
            let f = facts::<$R, N1, 0>(&archetypes);
            let arch_ref = match archs(&archetypes)[0] {
                // SAFETY: the archetype outlives the reference (it is owned by the world below).
                Some(a) => unsafe { a.identifier() },
                None => unreachable!(),
            };
            // one slot per row, concrete layout (identifier (r, 0) lives in slot r)
            let mut slots = Vec::with_capacity(N1);
            let mut r = 0;
            while r < N1 {
                slots.push(Slot {
                    generation: 0,
                    location: Some(Location::new(arch_ref, r)),
                });
                r += 1;
            }
            let allocator = Allocator {
                slots,
                free: alloc::collections::VecDeque::new(),
            };
            let mut w = World::<$R, resource::Null>::verif_from_raw_parts(archetypes, allocator, N1, resource::Null);
            let row: usize = kani::any();
            kani::assume(row < N1);
            let pred: fn(&[bool]) -> bool = $pred;
            // SAFETY: the world outlives the handle; nothing else touches it meanwhile.
            let mut entries: Entries<'_, $R, resource::Null, crate::query::Views!($($SV),*), _> = unsafe { Entries::new(&mut w) };
            let stale = entity::Identifier::new(row, 1);
            vassert!(entries.entry(stale).is_none(), "a stale identifier has no entry");
            match entries.entry(ids1[row]) {
                Some(mut entry) => match entry.query(Query::<crate::query::Views!($($V),*), $F>::new()) {
                    Some(item) => {
                        vassert!(pred(&bits1), "entry query answers only when filter and sub views match the entity");
                        let crate::query::result!($($bind),*) = item;
                        $( vcheck!($kind $($arg)*, $R, &bits1, &f.cols1, row, ids1[row]); )*
                    }
                    None => vassert!(!pred(&bits1), "entry query refuses only when filter or sub views do not match"),
                },
                None => vassert!(false, "a live identifier has an entry"),
            }
            kani::cover!(true, "reached end");
            core::mem::forget(w);
        }
    };
}

// sub view kinds against super view kinds: & of &, & of &mut, Option<&> of &mut, &mut of &mut,
// Option<&mut> of Option<&mut>, with an Option<&mut> super view in front of a later component
entries_step!(entries_q_dbwa_sub_of_mut_and_opt, RDBWA, t1 = [true, true, false, true] x 2,
    super_views = (Option<&mut D>, &mut B, Option<&mut W>, &mut A), sub_views = (&A, Option<&D>, &mut B), filter = filter::None, matches = |b| b[3] && b[1],
    bind = (a, od, bb), checks = [(req 3 a), (opt 0 od), (req 1 bb)]);
entries_step!(entries_q_dbwa_absent_required, RDBWA, t1 = [true, true, false, true] x 2,
    super_views = (Option<&mut D>, &mut B, Option<&mut W>, &mut A), sub_views = (&W, &A), filter = filter::None, matches = |b| b[2] && b[3],
    bind = (w, a), checks = [(req 2 w), (req 3 a)]);
entries_step!(entries_t_dbwa_filter_not, RDBWA, t1 = [true, false, true, true] x 2,
    super_views = (&D, entity::Identifier, Option<&B>, &mut W, Option<&mut A>), sub_views = (Option<&mut A>, &W, entity::Identifier), filter = Not<Has<B>>, matches = |b| b[2] && !b[1],
    bind = (oa, w, id), checks = [(opt 3 oa), (req 2 w), (id id)]);

// ------------------------------------------------------------------------------------------
// World-level operations on a world assembled with a *fully concrete* slot table (identifier (r,0)
// lives in slot r): World::remove / clear / Entry::add / Entry::remove executed for real, with
// symbolic component values and the reference-map observer afterwards.
// ------------------------------------------------------------------------------------------

fn concrete_world<R, const N1: usize>(bits1: &[bool]) -> (World<R, resource::Null>, [entity::Identifier; N1])
where
    R: Registry + Cols,
{
    let (archetypes, ids1, _ids2) = any_table2_with::<R, N1, 0>(bits1, &no_bits::<R>(), true);
    let arch_ref = match archs(&archetypes)[0] {
        // SAFETY: the archetype outlives the reference (it is owned by the world below).
        Some(a) => unsafe { a.identifier() },
        None => unreachable!(),
    };
    let mut slots = Vec::with_capacity(N1);
    let mut r = 0;
    while r < N1 {
        slots.push(Slot {
            generation: 0,
            location: Some(Location::new(arch_ref, r)),
        });
        r += 1;
    }
    let allocator = Allocator {
        slots,
        free: alloc::collections::VecDeque::new(),
    };
    (World::<R, resource::Null>::verif_from_raw_parts(archetypes, allocator, N1, resource::Null), ids1)
}

#[kani::proof]
#[kani::unwind(12)]
pub fn worldop_q_remove_first_of_two() {
    let (mut w, ids) = concrete_world::<RAB, 2>(&[true, true]);
    let keep_before = observe(&w, ids[1]);
    w.remove(ids[0]);
    vassert!(w.len() == 1 && !w.is_empty(), "len counts exactly the stored entities");
    vassert!(!w.contains(ids[0]) && w.contains(ids[1]), "exactly the removed identifier stops resolving");
    vassert!(keep_before.is_some(), "bystander observed before");
    let keep_after = observe(&w, ids[1]);
    match (keep_before, keep_after) {
        (Some(x), Some(y)) => vassert!(x.vals[0] == y.vals[0] && x.vals[1] == y.vals[1], "the bystander keeps its own values although its row moved"),
        _ => vassert!(false, "the bystander still resolves"),
    }
    w.remove(ids[0]);
    vassert!(w.len() == 1, "removing a stale identifier is a no-op");
    kani::cover!(true, "reached end");
    core::mem::forget(w);
}

fn vals_eq(a: &Option<EntityView>, b: &Option<EntityView>, n: usize) -> bool {
    match (a, b) {
        (Some(x), Some(y)) => {
            let mut eq = true;
            let mut k = 0;
            while k < MAXC {
                if k < n && x.vals[k] != y.vals[k] {
                    eq = false;
                }
                k += 1;
            }
            eq
        }
        _ => false,
    }
}

// Measured: only `remove` of the first of two rows and `clear` fit.  `remove` in a three-row table,
// `Entry::add` / `Entry::remove` (1.0 M steps) and `extend` into an existing table run out of memory even as
// the single operation of a harness, and any second operation does (add + overwrite + remove: 2.5 M steps,
// > 1 h).  Those operations are covered at archetype level (`rm_`, `shape_`, `ext_`) and through E3c.

#[kani::proof]
#[kani::unwind(12)]
pub fn worldop_q_clear() {
    let (mut w, ids) = concrete_world::<RAB, 2>(&[true, true]);
    w.clear();
    vassert!(w.len() == 0 && w.is_empty(), "a cleared world is empty");
    vassert!(!w.contains(ids[0]) && !w.contains(ids[1]), "no identifier survives clear");
    vassert!(w.entity_allocator.free.len() == 2, "every cleared identifier's slot is released");
    kani::cover!(true, "reached end");
    core::mem::forget(w);
}

entries_step!(entries_q_dbwa_has_filter_on_absent_optmut, RDBWA, t1 = [true, true, false, true] x 2,
    super_views = (Option<&mut D>, &mut B, Option<&mut W>, &mut A), sub_views = (&B), filter = Has<W>, matches = |b| b[1] && b[2],
    bind = (bb), checks = [(req 1 bb)]);
// user-level combinators over the run-time filter (the second operand decides)
entries_step!(entries_q_dbwa_and_filter_second_false, RDBWA, t1 = [true, true, false, true] x 2,
    super_views = (Option<&mut D>, &mut B, Option<&mut W>, &mut A), sub_views = (&B), filter = And<Has<B>, Has<W>>, matches = |b| b[1] && b[1] && b[2],
    bind = (bb), checks = [(req 1 bb)]);
entries_step!(entries_t_dbwa_or_filter_second_true, RDBWA, t1 = [true, true, false, true] x 2,
    super_views = (Option<&mut D>, &mut B, Option<&mut W>, &mut A), sub_views = (&B), filter = Or<Has<W>, Has<A>>, matches = |b| b[1] && (b[2] || b[3]),
    bind = (bb), checks = [(req 1 bb)]);
entries_step!(entries_t_dbwa_not_has_filter_on_absent_optmut, RDBWA, t1 = [true, true, false, true] x 2,
    super_views = (Option<&mut D>, &mut B, Option<&mut W>, &mut A), sub_views = (&B), filter = Not<Has<W>>, matches = |b| b[1] && !b[2],
    bind = (bb), checks = [(req 1 bb)]);
