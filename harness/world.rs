// World-level one-step harnesses over the hashbrown model (engine E2).
//
// Pre-state: a `World` assembled through `World::from_raw_parts` from symbolic archetypes and a
// symbolic allocator satisfying ArchInv ∧ AllocInv ∧ LinkInv ∧ TableInv (the state a deserialized
// world is in: `type_id_lookup` empty, every archetype listed in `foreign_identifier_lookup`).
// One public operation with symbolic arguments; afterwards the whole-world audit and the
// reference-map comparison (identifier -> component set + values).

use super::{
    arch::*,
    common::*,
};
use crate::{
    archetype,
    archetype::Archetype,
    archetypes::Archetypes,
    entity,
    entity::allocator::Allocator,
    registry::Registry,
    resource,
    world::World,
};
use alloc::{
    vec,
    vec::Vec,
};

pub const MAXR: usize = 4; // registry length bound for the generic observers
pub const TCAP: usize = hashbrown::CAP; // archetypes per table (model capacity)
pub const ROWS: usize = 4; // rows per archetype bound for the audits
pub const SLOTS: usize = 6; // slot table bound for the audits

/// Component-set bits of an archetype, read from its identifier bytes (not through brood's iterator).
pub fn bits_of<R: Registry>(arch: &Archetype<R>) -> [bool; MAXR] {
    let (ident, _, _, _) = arch.verif_raw();
    let (p, _cap) = ident.verif_raw();
    let mut out = [false; MAXR];
    let mut i = 0;
    while i < MAXR {
        if i < R::LEN {
            // SAFETY: the identifier buffer has (LEN + 7) / 8 bytes.
            let byte = unsafe { *p.add(i / 8) };
            out[i] = (byte >> (i % 8)) & 1 != 0;
        }
        i += 1;
    }
    out
}

fn ident_ptr<R: Registry>(arch: &Archetype<R>) -> *const u8 {
    arch.verif_raw().0.verif_raw().0 as *const u8
}

/// The table's archetypes, by exactly `TCAP` calls to the table iterator (constant-bound loop).
pub fn archs<'a, R: Registry>(archetypes: &'a Archetypes<R>) -> [Option<&'a Archetype<R>>; TCAP] {
    let (table, _, _) = archetypes.verif_raw();
    // SAFETY: the table is not modified while the references are alive.
    let mut it = unsafe { table.iter() };
    let mut out = [None; TCAP];
    let mut i = 0;
    while i < TCAP {
        if let Some(b) = it.next() {
            // SAFETY: bucket valid, shared access only.
            out[i] = Some(unsafe { b.as_ref() });
        }
        i += 1;
    }
    vassert!(it.next().is_none(), "table holds at most TCAP archetypes");
    out
}

/// What the reference map holds for one entity.
#[derive(Clone, Copy, PartialEq)]
pub struct EntityView {
    pub bits: [bool; MAXR],
    pub vals: [u64; MAXC],
}

/// Resolves `id` the way a user would (allocator -> location -> archetype row) and reads its
/// component set and values with the harness' own typed walkers.
pub fn observe<R, Res>(w: &World<R, Res>, id: entity::Identifier) -> Option<EntityView>
where
    R: Registry + Cols,
{
    let loc = w.entity_allocator.get(id)?;
    let list = archs(&w.archetypes);
    let mut found = None;
    let mut i = 0;
    while i < TCAP {
        if let Some(arch) = list[i] {
            let (_ident, (idp, _), cols, n) = arch.verif_raw();
            if ident_ptr(arch) == loc.identifier.verif_pointer() {
                vassert!(loc.index < n, "location row is inside its archetype");
                // SAFETY: row in bounds (asserted above).
                vassert!(unsafe { *idp.add(loc.index) } == id, "the row found through an identifier carries that identifier");
                let bits = bits_of(arch);
                let mut vals = [0u64; MAXC];
                // SAFETY: ArchInv.
                unsafe { R::read_row(&bits[..R::LEN], cols, loc.index, &mut vals, 0) };
                found = Some(EntityView { bits, vals });
            }
        }
        i += 1;
    }
    vassert!(found.is_some(), "a live identifier's archetype is in the table");
    found
}

fn bytes_eq<R: Registry>(a: &Archetype<R>, b: &Archetype<R>) -> bool {
    let x = bits_of(a);
    let y = bits_of(b);
    let mut eq = true;
    let mut i = 0;
    while i < MAXR {
        if x[i] != y[i] {
            eq = false;
        }
        i += 1;
    }
    eq
}

/// Whole-world structural audit: AllocInv ∧ LinkInv ∧ TableInv ∧ len.
pub fn audit_world<R, Res>(w: &World<R, Res>) -> bool
where
    R: Registry,
{
    let (table, tlookup, flookup) = w.archetypes.verif_raw();
    let a = &w.entity_allocator;
    let list = archs(&w.archetypes);
    let mut ok = true;
    let mut rows = 0usize;
    let mut narch = 0usize;
    let mut i = 0;
    while i < TCAP {
        if let Some(arch) = list[i] {
            narch += 1;
            let (ident, _, cols, n) = arch.verif_raw();
            rows += n;
            let p = ident_ptr(arch);
            let bits = bits_of(arch);
            if cols.len() != popcount(&bits) {
                ok = false; // one column per component of the set
            }
            if !link_ok_capped::<R, ROWS>(arch, a) {
                ok = false;
            }
            // identifier-bytes lookup: at least one entry for these bytes, and every entry for
            // them points at this archetype's own (live) buffer.  (brood's Archetypes::clone
            // registers each archetype twice; duplicates are harmless and not demanded away.)
            // SAFETY: identifier buffers are live.
            let bytes = unsafe { ident.as_slice() };
            let mut hits = 0;
            for (k, v) in flookup.iter() {
                if *k == bytes {
                    hits += 1;
                    if v.verif_pointer() != p || k.as_ptr() != p {
                        ok = false;
                    }
                }
            }
            if hits == 0 {
                ok = false;
            }
            // no second archetype with the same component set
            let mut j = 0;
            while j < TCAP {
                if let Some(other) = list[j] {
                    if j != i && bytes_eq(arch, other) {
                        ok = false;
                    }
                }
                j += 1;
            }
        }
        i += 1;
    }
    if table.len() != narch {
        ok = false;
    }
    // every lookup entry (both maps) points at a live archetype of the table
    for (k, v) in flookup.iter() {
        let mut live = false;
        let mut j = 0;
        while j < TCAP {
            if let Some(arch) = list[j] {
                if ident_ptr(arch) == v.verif_pointer() && k.as_ptr() == v.verif_pointer() {
                    live = true;
                }
            }
            j += 1;
        }
        if !live {
            ok = false;
        }
    }
    for (_t, v) in tlookup.iter() {
        let mut live = false;
        let mut j = 0;
        while j < TCAP {
            if let Some(arch) = list[j] {
                if ident_ptr(arch) == v.verif_pointer() {
                    live = true;
                }
            }
            j += 1;
        }
        if !live {
            ok = false;
        }
    }
    if !alloc_inv_capped::<R, SLOTS>(a) {
        ok = false;
    }
    // rows -> slots is injective (LinkInv), so equality of the counts makes it a bijection
    let active = active_slots_capped::<R, SLOTS>(a);
    if active != rows || w.len() != rows || w.is_empty() != (rows == 0) {
        ok = false;
    }
    ok
}

/// A world with two archetypes (`bits1` with N1 rows, `bits2` with N2 rows), S = N1 + N2 + F
/// slots, assembled without going through any lookup (so that the shape stays concrete for the
/// symbolic executor).  Returns the world, the two identifier columns and the free list.
pub fn any_world2<R, const S: usize, const F: usize, const N1: usize, const N2: usize>(
    bits1: &[bool],
    cap1: usize,
    bits2: &[bool],
    cap2: usize,
) -> (World<R, resource::Null>, [entity::Identifier; N1], [entity::Identifier; N2], [usize; F])
where
    R: Registry + Cols,
{
    vassert!(S == N1 + N2 + F, "every active slot belongs to a table archetype (harness bug)");
    let id1 = ident::<R>(bits_to_bytes(bits1));
    let id2 = ident::<R>(bits_to_bytes(bits2));
    // SAFETY: the buffers are moved into the archetypes below and live as long as the world.
    let (r1, r2) = unsafe { (id1.as_ref(), id2.as_ref()) };
    let (alloc, ids1, ids2, free) = any_linked2_with::<R, S, F, N1, N2>(r1, r2, r1, true);
    let a1 = any_archetype::<R>(id1, bits1, N1, cap1, &ids1);
    let a2 = any_archetype::<R>(id2, bits2, N2, cap2, &ids2);
    let mut table = hashbrown::raw::RawTable::new();
    table.insert(0, a1, |_| 0);
    table.insert(0, a2, |_| 0);
    let mut flookup = hashbrown::HashMap::with_hasher(fnv::FnvBuildHasher::default());
    // SAFETY: the identifier buffers outlive the map (both are owned by the same `Archetypes`).
    unsafe {
        flookup.insert_unique_unchecked(r1.as_slice(), r1);
        flookup.insert_unique_unchecked(r2.as_slice(), r2);
    }
    let tlookup = hashbrown::HashMap::with_hasher(fnv::FnvBuildHasher::default());
    let archetypes = Archetypes::<R>::verif_from_parts(table, tlookup, flookup);
    let w = World::<R, resource::Null>::verif_from_raw_parts(archetypes, alloc, N1 + N2, resource::Null);
    (w, ids1, ids2, free)
}

fn same_view(a: &Option<EntityView>, b: &Option<EntityView>) -> bool {
    match (a, b) {
        (None, None) => true,
        (Some(x), Some(y)) => {
            let mut eq = true;
            let mut i = 0;
            while i < MAXR {
                if x.bits[i] != y.bits[i] {
                    eq = false;
                }
                i += 1;
            }
            let n = popcount(&x.bits);
            let mut k = 0;
            while k < MAXC {
                if k < n && x.vals[k] != y.vals[k] {
                    eq = false;
                }
                k += 1;
            }
            eq
        }
        _ => false,
    }
}

/// Flat dump of the world as the reference map sees it: one record per stored row.
#[derive(Clone, Copy)]
pub struct Rec {
    pub used: bool,
    pub id: entity::Identifier,
    pub view: EntityView,
}

pub const RECS: usize = TCAP * ROWS;

pub fn dump<R, Res>(w: &World<R, Res>) -> [Rec; RECS]
where
    R: Registry + Cols,
{
    let list = archs(&w.archetypes);
    let mut out = [Rec {
        used: false,
        id: entity::Identifier::new(usize::MAX, u64::MAX),
        view: EntityView {
            bits: [false; MAXR],
            vals: [0; MAXC],
        },
    }; RECS];
    let mut i = 0;
    while i < TCAP {
        if let Some(arch) = list[i] {
            let (_ident, (idp, _), cols, n) = arch.verif_raw();
            let bits = bits_of(arch);
            let mut r = 0;
            while r < ROWS {
                if r < n {
                    let mut vals = [0u64; MAXC];
                    // SAFETY: ArchInv, r < n.
                    unsafe { R::read_row(&bits[..R::LEN], cols, r, &mut vals, 0) };
                    out[i * ROWS + r] = Rec {
                        used: true,
                        // SAFETY: ArchInv, r < n.
                        id: unsafe { *idp.add(r) },
                        view: EntityView { bits, vals },
                    };
                }
                r += 1;
            }
        }
        i += 1;
    }
    out
}

pub fn rec_count(d: &[Rec; RECS]) -> usize {
    let mut c = 0;
    let mut i = 0;
    while i < RECS {
        if d[i].used {
            c += 1;
        }
        i += 1;
    }
    c
}

/// Looks an identifier up in a dump; `None` if absent, asserts it is not stored twice.
pub fn rec_find(d: &[Rec; RECS], id: entity::Identifier) -> Option<EntityView> {
    let mut found = None;
    let mut i = 0;
    while i < RECS {
        if d[i].used && d[i].id == id {
            vassert!(found.is_none(), "each stored entity is reachable through exactly one identifier");
            found = Some(d[i].view);
        }
        i += 1;
    }
    found
}

/// Every record of `before` except `except` is in `after` with the same component set and values.
pub fn frame_ok(before: &[Rec; RECS], after: &[Rec; RECS], except: Option<entity::Identifier>) -> bool {
    let mut ok = true;
    let mut i = 0;
    while i < RECS {
        if before[i].used && Some(before[i].id) != except {
            if !same_view(&rec_find(after, before[i].id), &Some(before[i].view)) {
                ok = false;
            }
        }
        i += 1;
    }
    ok
}

// ------------------------------------------------------------------------------------------
// World-level glue.  Measured in this sandbox: any harness in which `World::remove`, `clear` or an
// `Entry` shape change runs after state has been stored in the slot table does not fit in memory
// (the location is read back from heap storage, so the archetype operated on is a symbolic object
// for the symbolic executor: > 60 GB for one entity).  What does fit is a fresh world plus insert /
// extend; those are kept so that the glue in `World::{new, insert, extend, len, contains}` and
// `Archetypes::get_mut_or_insert_new_for_entity` is executed by the solver run at all.
// ------------------------------------------------------------------------------------------

macro_rules! world_insert {
    ($name:ident, $R:ty, first = ($($e1:expr),*), second = $SECOND:tt) => {
        #[kani::proof]
        #[kani::unwind(18)]
        pub fn $name() {
            let mut w = World::<$R>::new();
            vassert!(w.is_empty() && w.len() == 0, "a new world is empty");
            let id0 = w.insert(crate::entity!($($e1),*));
            vassert!(w.len() == 1 && !w.is_empty() && w.contains(id0), "inserted entity is live and counted");
            vassert!(id0 == entity::Identifier::new(0, 0), "first identifier of a world");
            world_insert!(@second $SECOND, w, id0);
            vassert!(audit_world(&w), "world invariants after insert");
            let stale = entity::Identifier::new(id0.index, kani::any());
            vassert!(w.contains(stale) == (stale.generation == id0.generation), "contains() accepts exactly the stored generation");
            kani::cover!(true, "reached end");
            core::mem::forget(w);
        }
    };
    (@second none, $w:ident, $id0:ident) => {};
    (@second ($($e2:expr),*), $w:ident, $id0:ident) => {
        let id1 = $w.insert(crate::entity!($($e2),*));
        vassert!($w.len() == 2 && $w.contains(id1) && $w.contains($id0) && id1 != $id0, "second entity is live, counted and distinct");
        vassert!($w.archetypes.verif_raw().0.len() == 1, "same component set in another order lands in the same table");
    };
}

world_insert!(world_q_insert_ba, RAB, first = (B(kani::any()), A(kani::any())), second = none);
// (two inserts: measured > 20 GB, not kept)
world_insert!(world_t_insert_empty, RAB, first = (), second = none);

// Measured: `Archetypes::clone_from` / `clone` at table level (two archetypes per side, one row)
// does not fit in 20 GB either (1.9 M program steps); the table level of clone is outside the claim.

// ------------------------------------------------------------------------------------------
// Archetypes::get_mut_or_insert_new (the table lookup used by Entry::add / Entry::remove) from an
// empty table: the same component set, given twice in two separate identifier buffers, must land in
// one archetype, and a later lookup by entity type must find that archetype too.
// ------------------------------------------------------------------------------------------

macro_rules! table_get_or_insert {
    ($name:ident, $R:ty, byte = $BYTE:expr, entity = ($($C:ty),*)) => {
        #[kani::proof]
        #[kani::unwind(18)]
        pub fn $name() {
            let mut archetypes = Archetypes::<$R>::new();
            let first = {
                let a = archetypes.get_mut_or_insert_new(ident::<$R>(vec![$BYTE]));
                ident_ptr(a)
            };
            let again = {
                let a = archetypes.get_mut_or_insert_new(ident::<$R>(vec![$BYTE]));
                ident_ptr(a)
            };
            vassert!(first == again, "the same component set reached twice through the entry path is one archetype");
            vassert!(archetypes.verif_raw().0.len() == 1, "one table per component set");
            // SAFETY: the entity type's components are exactly the set named by the identifier byte.
            let by_type = unsafe { ident_ptr(archetypes.get_mut_or_insert_new_for_entity::<crate::Entity!($($C),*), _>()) };
            vassert!(by_type == first, "the entity-type path finds the archetype the entry path created");
            vassert!(archetypes.verif_raw().0.len() == 1, "still one table per component set");
            let other = {
                let a = archetypes.get_mut_or_insert_new(ident::<$R>(vec![0]));
                ident_ptr(a)
            };
            vassert!(other != first && archetypes.verif_raw().0.len() == 2, "a different component set gets its own table");
            kani::cover!(true, "reached end");
            core::mem::forget(archetypes);
        }
    };
}

table_get_or_insert!(tbl_q_get_or_insert_ab, RAB, byte = 3, entity = (A, B));
table_get_or_insert!(tbl_t_get_or_insert_b, RAB, byte = 2, entity = (B));

// Archetypes::clone keeps the by-type lookup pointing at its own tables.
// Measured: `Archetypes::shrink_to_fit` on a table of two archetypes (one row in all) does not finish
// in 900 s (5.8 GB and growing); the decision it rests on -- `Archetype::is_empty` is about rows -- is
// checked at archetype level (`rows_`).

#[kani::proof]
#[kani::unwind(18)]
pub fn tbl_q_clone_by_type_lookup_names_own_table() {
    let mut archetypes = Archetypes::<RAB>::new();
    // SAFETY: the entity type's components are exactly A and B.
    let original = unsafe { ident_ptr(archetypes.get_mut_or_insert_new_for_entity::<crate::Entity!(A, B), _>()) };
    // SAFETY: the returned identifier map is kept alive as long as the clone (both are forgotten at the end).
    let (mut copy, map) = unsafe { archetypes.clone() };
    vassert!(copy.verif_raw().0.len() == 1, "the clone has the same tables");
    // SAFETY: as above.
    let in_copy = unsafe { ident_ptr(copy.get_mut_or_insert_new_for_entity::<crate::Entity!(A, B), _>()) };
    vassert!(copy.verif_raw().0.len() == 1, "the by-type path finds the clone's own table instead of making another");
    vassert!(in_copy != original, "and it is the clone's table, not the source's");
    let own = archs(&copy);
    let mut k = 0;
    let mut found = false;
    while k < TCAP {
        if let Some(a) = own[k] {
            if ident_ptr(a) == in_copy {
                found = true;
            }
        }
        k += 1;
    }
    vassert!(found, "the archetype returned is stored in the clone");
    kani::cover!(true, "reached end");
    core::mem::forget(map);
    core::mem::forget(copy);
    core::mem::forget(archetypes);
}

// Table-level equality on rowless tables: a table is not equal to one holding the same archetypes and
// one more.
#[kani::proof]
#[kani::unwind(18)]
pub fn tbl_q_eq_rowless_count_differs() {
    let mut one = Archetypes::<RAB>::new();
    let _ = ident_ptr(one.get_mut_or_insert_new(ident::<RAB>(vec![3])));
    let mut two = Archetypes::<RAB>::new();
    let _ = ident_ptr(two.get_mut_or_insert_new(ident::<RAB>(vec![3])));
    let _ = ident_ptr(two.get_mut_or_insert_new(ident::<RAB>(vec![0])));
    vassert!(!(one == two), "a table with fewer archetypes is not equal to one with more");
    kani::cover!(true, "reached end");
    core::mem::forget(one);
    core::mem::forget(two);
}

// Measured: `Archetypes::clone_from` into a table holding one component-less row from a rowless source
// table does not fit in 20 GB (857 k program steps); stays outside the claim.

// Measured: `Archetypes::eq` between a table of one archetype and a table of two (one row) does not
// fit in 20 GB (2.9 M program steps).  Table-level equality stays outside the claim (C16 is claimed at
// the level of `Archetype::component_eq`).
