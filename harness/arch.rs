// ArchInv / LinkInv state constructors, snapshots and audits for `Archetype<R>`.
//
// An archetype of a concrete *shape* (registry, which components, row count, capacity) is built
// directly through `Archetype::from_raw_parts` with symbolic cell contents; a snapshot reduces
// every cell to a 64-bit fingerprint so that the reference model is plain arrays.

use super::common::*;
use crate::{
    archetype,
    archetype::Archetype,
    component::Component,
    entity,
    entity::allocator::{
        Allocator,
        Location,
        Slot,
    },
    registry,
    registry::Registry,
};
use alloc::{
    collections::VecDeque,
    vec,
    vec::Vec,
};
use core::mem::ManuallyDrop;

pub const MAXC: usize = 4;

/// Value fingerprint + symbolic construction for the vocabulary components.
pub trait Cell: Component {
    const IS_D: bool = false;
    fn fp(&self) -> u64;
    fn any_cell() -> Self;
}
impl Cell for A {
    fn fp(&self) -> u64 {
        self.0 as u64
    }
    fn any_cell() -> Self {
        A(kani::any())
    }
}
impl Cell for B {
    fn fp(&self) -> u64 {
        self.0 as u64
    }
    fn any_cell() -> Self {
        B(kani::any())
    }
}
impl Cell for Z {
    fn fp(&self) -> u64 {
        0x5a
    }
    fn any_cell() -> Self {
        Z
    }
}
impl Cell for W {
    fn fp(&self) -> u64 {
        self.0
    }
    fn any_cell() -> Self {
        W(kani::any())
    }
}
impl Cell for H {
    fn fp(&self) -> u64 {
        self.0 as u64
    }
    fn any_cell() -> Self {
        H(kani::any())
    }
}
impl Cell for D {
    const IS_D: bool = true;
    fn fp(&self) -> u64 {
        ((self.id as u64) << 8) | self.val as u64
    }
    fn any_cell() -> Self {
        D::mint(kani::any())
    }
}

pub fn d_id_of_fp(fp: u64) -> u8 {
    (fp >> 8) as u8
}

/// Walkers over a registry's component list, parallel to brood's own `registry::sealed::Storage`
/// but written independently (typed `Vec`s and plain indexing only).
pub trait Cols {
    fn any_columns(bits: &[bool], n: usize, cap: usize, out: &mut Vec<(*mut u8, usize)>);
    /// Fingerprints of row `row`: `out[k]` for the k-th *present* column.
    unsafe fn read_row(bits: &[bool], cols: &[(*mut u8, usize)], row: usize, out: &mut [u64; MAXC], k: usize);
    /// Address of the cell (k-th present column counted from `k0`, `row`), for `which`-th registry
    /// component; null if the component is absent.
    unsafe fn cell_addr(bits: &[bool], cols: &[(*mut u8, usize)], row: usize, which: usize) -> *const u8;
    /// size_of of each present column, in order.
    fn sizes(bits: &[bool], out: &mut [usize; MAXC], k: usize);
    /// which present columns hold the ledger component `D`.
    fn dmask(bits: &[bool], out: &mut [bool; MAXC], k: usize);
}

impl Cols for registry::Null {
    fn any_columns(_bits: &[bool], _n: usize, _cap: usize, _out: &mut Vec<(*mut u8, usize)>) {}
    unsafe fn read_row(_bits: &[bool], _cols: &[(*mut u8, usize)], _row: usize, _out: &mut [u64; MAXC], _k: usize) {}
    unsafe fn cell_addr(_bits: &[bool], _cols: &[(*mut u8, usize)], _row: usize, _which: usize) -> *const u8 {
        core::ptr::null()
    }
    fn sizes(_bits: &[bool], _out: &mut [usize; MAXC], _k: usize) {}
    fn dmask(_bits: &[bool], _out: &mut [bool; MAXC], _k: usize) {}
}

impl<C, R> Cols for (C, R)
where
    C: Cell,
    R: Cols,
{
    fn any_columns(bits: &[bool], n: usize, cap: usize, out: &mut Vec<(*mut u8, usize)>) {
        if bits[0] {
            let mut v = ManuallyDrop::new(Vec::<C>::with_capacity(cap));
            let mut i = 0;
            while i < n {
                v.push(C::any_cell());
                i += 1;
            }
            out.push((v.as_mut_ptr().cast::<u8>(), v.capacity()));
        }
        R::any_columns(&bits[1..], n, cap, out);
    }

    unsafe fn read_row(bits: &[bool], cols: &[(*mut u8, usize)], row: usize, out: &mut [u64; MAXC], k: usize) {
        if bits[0] {
            // SAFETY (harness): column 0 holds at least `row + 1` initialised `C`s.
            out[k] = unsafe { &*cols[0].0.cast::<C>().add(row) }.fp();
            unsafe { R::read_row(&bits[1..], &cols[1..], row, out, k + 1) };
        } else {
            unsafe { R::read_row(&bits[1..], cols, row, out, k) };
        }
    }

    unsafe fn cell_addr(bits: &[bool], cols: &[(*mut u8, usize)], row: usize, which: usize) -> *const u8 {
        if which == 0 {
            if bits[0] {
                unsafe { cols[0].0.cast::<C>().add(row).cast::<u8>() }
            } else {
                core::ptr::null()
            }
        } else if bits[0] {
            unsafe { R::cell_addr(&bits[1..], &cols[1..], row, which - 1) }
        } else {
            unsafe { R::cell_addr(&bits[1..], cols, row, which - 1) }
        }
    }

    fn sizes(bits: &[bool], out: &mut [usize; MAXC], k: usize) {
        if bits[0] {
            out[k] = core::mem::size_of::<C>();
            R::sizes(&bits[1..], out, k + 1);
        } else {
            R::sizes(&bits[1..], out, k);
        }
    }

    fn dmask(bits: &[bool], out: &mut [bool; MAXC], k: usize) {
        if bits[0] {
            out[k] = C::IS_D;
            R::dmask(&bits[1..], out, k + 1);
        } else {
            R::dmask(&bits[1..], out, k);
        }
    }
}

pub fn bits_to_bytes(bits: &[bool]) -> Vec<u8> {
    let nbytes = (bits.len() + 7) / 8;
    let mut bytes = vec![0u8; nbytes];
    let mut i = 0;
    while i < bits.len() {
        if bits[i] {
            bytes[i / 8] |= 1 << (i % 8);
        }
        i += 1;
    }
    bytes
}

pub fn popcount(bits: &[bool]) -> usize {
    let mut c = 0;
    let mut i = 0;
    while i < bits.len() {
        if bits[i] {
            c += 1;
        }
        i += 1;
    }
    c
}

/// ArchInv(shape, n): an archetype with the given component bits, `n` rows of symbolic cells,
/// column capacity `cap >= n`, and the given identifier column.
pub fn any_archetype<R>(
    identifier: archetype::Identifier<R>,
    bits: &[bool],
    n: usize,
    cap: usize,
    ids: &[entity::Identifier],
) -> Archetype<R>
where
    R: Registry + Cols,
{
    let mut comps = Vec::with_capacity(popcount(bits));
    R::any_columns(bits, n, cap, &mut comps);
    let mut idv = ManuallyDrop::new(Vec::<entity::Identifier>::with_capacity(cap));
    let mut i = 0;
    while i < n {
        idv.push(ids[i]);
        i += 1;
    }
    // SAFETY: raw parts of valid Vecs of length n, one per set bit, in registry order.
    unsafe { Archetype::from_raw_parts(identifier, (idv.as_mut_ptr(), idv.capacity()), comps, n) }
}

#[derive(Clone, Copy)]
pub struct Snap<const N: usize> {
    pub n: usize,
    pub rows: [[u64; MAXC]; N],
    pub ids: [entity::Identifier; N],
}

pub fn snap<R, const N: usize>(arch: &Archetype<R>, bits: &[bool]) -> Snap<N>
where
    R: Registry + Cols,
{
    let (_ident, (idp, _idcap), cols, n) = arch.verif_raw();
    vassert!(n <= N, "snapshot capacity (harness bug)");
    let mut s = Snap {
        n,
        rows: [[0; MAXC]; N],
        ids: [entity::Identifier::new(usize::MAX, u64::MAX); N],
    };
    let mut r = 0;
    while r < N {
        if r < n {
            // SAFETY: ArchInv — every column and the identifier column hold `n` elements.
            unsafe {
                R::read_row(bits, cols, r, &mut s.rows[r], 0);
                s.ids[r] = *idp.add(r);
            }
        }
        r += 1;
    }
    s
}

pub fn rows_eq(a: &[u64; MAXC], b: &[u64; MAXC], ncols: usize) -> bool {
    let mut k = 0;
    let mut eq = true;
    while k < MAXC {
        if k < ncols && a[k] != b[k] {
            eq = false;
        }
        k += 1;
    }
    eq
}

/// Structural part of ArchInv that is observable without dropping: one column per set bit.
pub fn arch_shape_ok<R>(arch: &Archetype<R>, bits: &[bool], n: usize) -> bool
where
    R: Registry,
{
    let (_ident, _ids, cols, len) = arch.verif_raw();
    cols.len() == popcount(bits) && len == n && arch.len() == n
}

/// LinkInv pre-state over two archetypes: an allocator with `S` slots, `F` free, in which the
/// `N1` rows of the archetype identified by `ref1` and the `N2` rows of the one identified by
/// `ref2` occupy a symbolic injective choice of active slots; all other active slots point into
/// `other_ref` (an archetype not under test).  Returns the allocator, the two identifier columns
/// and the free list.
pub fn any_linked2<R, const S: usize, const F: usize, const N1: usize, const N2: usize>(
    ref1: archetype::IdentifierRef<R>,
    ref2: archetype::IdentifierRef<R>,
    other_ref: archetype::IdentifierRef<R>,
) -> (Allocator<R>, [entity::Identifier; N1], [entity::Identifier; N2], [usize; F])
where
    R: Registry,
{
    any_linked2_with::<R, S, F, N1, N2>(ref1, ref2, other_ref, false)
}

/// As `any_linked2`; with `identity_layout` the slot assignment is the concrete identity layout
/// (rows of the first archetype in slots 0.., then the second archetype's, then the free slots in
/// order) and only generations and unrelated locations stay symbolic.  Used by the World-level
/// harnesses, where a symbolic slot assignment makes the archetype operated on a symbolic object.
pub fn any_linked2_with<R, const S: usize, const F: usize, const N1: usize, const N2: usize>(
    ref1: archetype::IdentifierRef<R>,
    ref2: archetype::IdentifierRef<R>,
    other_ref: archetype::IdentifierRef<R>,
    identity_layout: bool,
) -> (Allocator<R>, [entity::Identifier; N1], [entity::Identifier; N2], [usize; F])
where
    R: Registry,
{
    let mut row_slot1: [usize; N1] = if identity_layout { [0; N1] } else { kani::any() };
    let mut row_slot2: [usize; N2] = if identity_layout { [0; N2] } else { kani::any() };
    let mut free_arr: [usize; F] = if identity_layout { [0; F] } else { kani::any() };
    if identity_layout {
        let mut i = 0;
        while i < N1 {
            row_slot1[i] = i;
            i += 1;
        }
        let mut i = 0;
        while i < N2 {
            row_slot2[i] = N1 + i;
            i += 1;
        }
        let mut i = 0;
        while i < F {
            free_arr[i] = N1 + N2 + i;
            i += 1;
        }
    }
    let mut i = 0;
    while i < N1 {
        kani::assume(row_slot1[i] < S);
        let mut j = 0;
        while j < i {
            kani::assume(row_slot1[j] != row_slot1[i]);
            j += 1;
        }
        i += 1;
    }
    let mut i = 0;
    while i < N2 {
        kani::assume(row_slot2[i] < S);
        let mut j = 0;
        while j < i {
            kani::assume(row_slot2[j] != row_slot2[i]);
            j += 1;
        }
        let mut j = 0;
        while j < N1 {
            kani::assume(row_slot1[j] != row_slot2[i]);
            j += 1;
        }
        i += 1;
    }
    let mut i = 0;
    while i < F {
        kani::assume(free_arr[i] < S);
        let mut j = 0;
        while j < i {
            kani::assume(free_arr[j] != free_arr[i]);
            j += 1;
        }
        let mut j = 0;
        while j < N1 {
            kani::assume(row_slot1[j] != free_arr[i]);
            j += 1;
        }
        let mut j = 0;
        while j < N2 {
            kani::assume(row_slot2[j] != free_arr[i]);
            j += 1;
        }
        i += 1;
    }
    let mut ids1 = [entity::Identifier::new(0, 0); N1];
    let mut ids2 = [entity::Identifier::new(0, 0); N2];
    let mut slots: Vec<Slot<R>> = Vec::with_capacity(S);
    let mut i = 0;
    while i < S {
        let generation: u64 = kani::any();
        kani::assume(generation < u64::MAX);
        let mut location = Some(Location::new(other_ref, kani::any()));
        let mut j = 0;
        while j < F {
            if free_arr[j] == i {
                location = None;
            }
            j += 1;
        }
        let mut j = 0;
        while j < N1 {
            if row_slot1[j] == i {
                location = Some(Location::new(ref1, j));
                ids1[j] = entity::Identifier::new(i, generation);
            }
            j += 1;
        }
        let mut j = 0;
        while j < N2 {
            if row_slot2[j] == i {
                location = Some(Location::new(ref2, j));
                ids2[j] = entity::Identifier::new(i, generation);
            }
            j += 1;
        }
        slots.push(Slot {
            generation,
            location,
        });
        i += 1;
    }
    let mut free = VecDeque::with_capacity(F);
    let mut i = 0;
    while i < F {
        free.push_back(free_arr[i]);
        i += 1;
    }
    (Allocator { slots, free }, ids1, ids2, free_arr)
}

pub fn any_linked<R, const S: usize, const F: usize, const NR: usize>(
    arch_ref: archetype::IdentifierRef<R>,
    other_ref: archetype::IdentifierRef<R>,
) -> (Allocator<R>, [entity::Identifier; NR], [usize; F])
where
    R: Registry,
{
    let (a, ids, _none, free) = any_linked2::<R, S, F, NR, 0>(arch_ref, other_ref, other_ref);
    (a, ids, free)
}

/// LinkInv for one archetype: every row's identifier resolves, through the real `Allocator::get`,
/// to exactly (this archetype, that row).
pub fn link_ok<R>(arch: &Archetype<R>, a: &Allocator<R>) -> bool
where
    R: Registry,
{
    let (ident, (idp, _), _cols, n) = arch.verif_raw();
    let mut ok = true;
    let mut r = 0;
    while r < n {
        // SAFETY: ArchInv.
        let id = unsafe { *idp.add(r) };
        match a.get(id) {
            Some(l) => {
                if l.index != r || l.identifier.verif_pointer() != ident.verif_raw().0 as *const u8 {
                    ok = false;
                }
            }
            None => ok = false,
        }
        r += 1;
    }
    ok
}

/// Number of active slots whose location points into the archetype with identifier buffer `p`.
pub fn slots_pointing_at<R>(a: &Allocator<R>, p: *const u8) -> usize
where
    R: Registry,
{
    let mut c = 0;
    let mut i = 0;
    while i < a.slots.len() {
        if let Some(l) = a.slots[i].location {
            if l.identifier.verif_pointer() == p {
                c += 1;
            }
        }
        i += 1;
    }
    c
}

// ------------------------------------------------------------------------------------------
// Capped variants for states whose sizes are not constants for the symbolic executor (anything
// read back from heap storage after a symbolic operation): every loop runs to a constant cap with
// a guard.
// ------------------------------------------------------------------------------------------

pub fn link_ok_capped<R, const ROWS: usize>(arch: &Archetype<R>, a: &Allocator<R>) -> bool
where
    R: Registry,
{
    let (ident, (idp, _), _cols, n) = arch.verif_raw();
    let mut ok = n <= ROWS;
    let mut r = 0;
    while r < ROWS {
        if r < n {
            // SAFETY: ArchInv.
            let id = unsafe { *idp.add(r) };
            match a.get(id) {
                Some(l) => {
                    if l.index != r || l.identifier.verif_pointer() != ident.verif_raw().0 as *const u8 {
                        ok = false;
                    }
                }
                None => ok = false,
            }
        }
        r += 1;
    }
    ok
}

pub fn alloc_inv_capped<R, const SLOTS: usize>(a: &Allocator<R>) -> bool
where
    R: Registry,
{
    let n = a.slots.len();
    let f = a.free.len();
    let mut ok = n <= SLOTS && f <= n;
    let mut i = 0;
    while i < SLOTS {
        if i < f {
            let x = a.free[i];
            if x >= n || a.slots[x].location.is_some() {
                ok = false;
            }
            let mut j = 0;
            while j < SLOTS {
                if j < i && a.free[j] == x {
                    ok = false;
                }
                j += 1;
            }
        }
        i += 1;
    }
    let mut inactive = 0;
    let mut i = 0;
    while i < SLOTS {
        if i < n && a.slots[i].location.is_none() {
            inactive += 1;
        }
        i += 1;
    }
    ok && inactive == f
}

pub fn active_slots_capped<R, const SLOTS: usize>(a: &Allocator<R>) -> usize
where
    R: Registry,
{
    let n = a.slots.len();
    let mut c = 0;
    let mut i = 0;
    while i < SLOTS {
        if i < n && a.slots[i].location.is_some() {
            c += 1;
        }
        i += 1;
    }
    c
}
