// A small self-describing serde back end over a fixed token array (no heap), used by the C06/C11
// harnesses.  `Ser` records what brood's `Serialize` impls emit; `De` replays a token array into
// brood's `Deserialize` impls, optionally failing at a (symbolic) token position.  `human_readable`
// selects brood's row-wise vs. column-wise archetype encoding.

use super::{
    arch::Cell,
    common::*,
};
use core::fmt;
use serde::{
    de,
    de::{
        DeserializeSeed,
        MapAccess,
        SeqAccess,
        Visitor,
    },
    ser,
    Deserialize,
    Deserializer,
    Serialize,
    Serializer,
};

// Kept below CBMC's field-sensitivity limit for arrays (64 elements) so that token kinds written at
// constant positions stay constants for the symbolic executor.
pub const NTOK: usize = 40;

#[derive(Clone, Copy, PartialEq, Eq, Debug)]
pub enum Tok {
    Empty,
    U8(u8),
    U16(u16),
    U32(u32),
    U64(u64),
    Unit,
    Str(&'static str),
    Seq,
    SeqEnd,
    Tuple,
    TupleEnd,
    Struct,
    StructEnd,
    Newtype,
}

impl Tok {
    pub fn payload(&self) -> u64 {
        match self {
            Tok::U8(v) => *v as u64,
            Tok::U16(v) => *v as u64,
            Tok::U32(v) => *v as u64,
            Tok::U64(v) => *v,
            _ => 0,
        }
    }

    pub fn from_parts(kind: u8, val: u64) -> Tok {
        match kind {
            1 => Tok::U8(val as u8),
            2 => Tok::U16(val as u16),
            3 => Tok::U32(val as u32),
            4 => Tok::U64(val),
            5 => Tok::Unit,
            7 => Tok::Seq,
            8 => Tok::SeqEnd,
            9 => Tok::Tuple,
            10 => Tok::TupleEnd,
            11 => Tok::Struct,
            12 => Tok::StructEnd,
            13 => Tok::Newtype,
            _ => Tok::Empty,
        }
    }

    /// Variant tag only (no payload comparison): what the decoder's control flow depends on.
    pub fn kind(&self) -> u8 {
        match self {
            Tok::Empty => 0,
            Tok::U8(_) => 1,
            Tok::U16(_) => 2,
            Tok::U32(_) => 3,
            Tok::U64(_) => 4,
            Tok::Unit => 5,
            Tok::Str(_) => 6,
            Tok::Seq => 7,
            Tok::SeqEnd => 8,
            Tok::Tuple => 9,
            Tok::TupleEnd => 10,
            Tok::Struct => 11,
            Tok::StructEnd => 12,
            Tok::Newtype => 13,
        }
    }
}

#[derive(Debug, Clone, Copy, PartialEq, Eq)]
pub struct Err(pub u8);

impl fmt::Display for Err {
    fn fmt(&self, f: &mut fmt::Formatter<'_>) -> fmt::Result {
        f.write_str("harness serde error")
    }
}
impl de::StdError for Err {}
impl ser::Error for Err {
    fn custom<T: fmt::Display>(_msg: T) -> Self {
        Err(1)
    }
}
impl de::Error for Err {
    fn custom<T: fmt::Display>(_msg: T) -> Self {
        Err(2)
    }
}

// ------------------------------------------------------------------------------------------
// Serializer
// ------------------------------------------------------------------------------------------

/// Token stream as two parallel arrays (variant tag, payload): the tags are what decides the
/// decoder's control flow and must stay foldable constants.
#[derive(Clone, Copy)]
pub struct Stream {
    pub kinds: [u8; NTOK],
    pub vals: [u64; NTOK],
    pub len: usize,
}

impl Stream {
    pub fn new() -> Self {
        Stream {
            kinds: [0; NTOK],
            vals: [0; NTOK],
            len: 0,
        }
    }

    pub fn set(&mut self, i: usize, t: Tok) {
        self.kinds[i] = t.kind();
        self.vals[i] = t.payload();
    }

    pub fn get(&self, i: usize) -> Tok {
        Tok::from_parts(self.kinds[i], self.vals[i])
    }
}

pub struct Ser {
    pub toks: Stream,
    pub len: usize,
    pub human_readable: bool,
}

impl Ser {
    pub fn new(human_readable: bool) -> Self {
        Ser {
            toks: Stream::new(),
            len: 0,
            human_readable,
        }
    }

    fn push(&mut self, t: Tok) -> Result<(), Err> {
        if self.len >= NTOK {
            return Result::Err(Err(9));
        }
        self.toks.set(self.len, t);
        self.len += 1;
        self.toks.len = self.len;
        Ok(())
    }
}

pub struct Compound<'a> {
    ser: &'a mut Ser,
    end: Tok,
}

impl<'a> Serializer for &'a mut Ser {
    type Ok = ();
    type Error = Err;
    type SerializeSeq = Compound<'a>;
    type SerializeTuple = Compound<'a>;
    type SerializeTupleStruct = Compound<'a>;
    type SerializeTupleVariant = Compound<'a>;
    type SerializeMap = Compound<'a>;
    type SerializeStruct = Compound<'a>;
    type SerializeStructVariant = Compound<'a>;

    fn is_human_readable(&self) -> bool {
        self.human_readable
    }
    fn serialize_bool(self, v: bool) -> Result<(), Err> {
        self.push(Tok::U8(v as u8))
    }
    fn serialize_i8(self, _v: i8) -> Result<(), Err> {
        Result::Err(Err(3))
    }
    fn serialize_i16(self, _v: i16) -> Result<(), Err> {
        Result::Err(Err(3))
    }
    fn serialize_i32(self, _v: i32) -> Result<(), Err> {
        Result::Err(Err(3))
    }
    fn serialize_i64(self, _v: i64) -> Result<(), Err> {
        Result::Err(Err(3))
    }
    fn serialize_u8(self, v: u8) -> Result<(), Err> {
        self.push(Tok::U8(v))
    }
    fn serialize_u16(self, v: u16) -> Result<(), Err> {
        self.push(Tok::U16(v))
    }
    fn serialize_u32(self, v: u32) -> Result<(), Err> {
        self.push(Tok::U32(v))
    }
    fn serialize_u64(self, v: u64) -> Result<(), Err> {
        self.push(Tok::U64(v))
    }
    fn serialize_f32(self, _v: f32) -> Result<(), Err> {
        Result::Err(Err(3))
    }
    fn serialize_f64(self, _v: f64) -> Result<(), Err> {
        Result::Err(Err(3))
    }
    fn serialize_char(self, _v: char) -> Result<(), Err> {
        Result::Err(Err(3))
    }
    fn serialize_str(self, _v: &str) -> Result<(), Err> {
        Result::Err(Err(3))
    }
    fn serialize_bytes(self, _v: &[u8]) -> Result<(), Err> {
        Result::Err(Err(3))
    }
    fn serialize_none(self) -> Result<(), Err> {
        Result::Err(Err(3))
    }
    fn serialize_some<T: ?Sized + Serialize>(self, _value: &T) -> Result<(), Err> {
        Result::Err(Err(3))
    }
    fn serialize_unit(self) -> Result<(), Err> {
        self.push(Tok::Unit)
    }
    fn serialize_unit_struct(self, _name: &'static str) -> Result<(), Err> {
        self.push(Tok::Unit)
    }
    fn serialize_unit_variant(self, _n: &'static str, _i: u32, _v: &'static str) -> Result<(), Err> {
        Result::Err(Err(3))
    }
    fn serialize_newtype_struct<T: ?Sized + Serialize>(self, _name: &'static str, value: &T) -> Result<(), Err> {
        self.push(Tok::Newtype)?;
        value.serialize(self)
    }
    fn serialize_newtype_variant<T: ?Sized + Serialize>(self, _n: &'static str, _i: u32, _v: &'static str, _value: &T) -> Result<(), Err> {
        Result::Err(Err(3))
    }
    fn serialize_seq(self, _len: Option<usize>) -> Result<Compound<'a>, Err> {
        self.push(Tok::Seq)?;
        Ok(Compound { ser: self, end: Tok::SeqEnd })
    }
    fn serialize_tuple(self, _len: usize) -> Result<Compound<'a>, Err> {
        self.push(Tok::Tuple)?;
        Ok(Compound { ser: self, end: Tok::TupleEnd })
    }
    fn serialize_tuple_struct(self, _name: &'static str, _len: usize) -> Result<Compound<'a>, Err> {
        Result::Err(Err(3))
    }
    fn serialize_tuple_variant(self, _n: &'static str, _i: u32, _v: &'static str, _len: usize) -> Result<Compound<'a>, Err> {
        Result::Err(Err(3))
    }
    fn serialize_map(self, _len: Option<usize>) -> Result<Compound<'a>, Err> {
        Result::Err(Err(3))
    }
    fn serialize_struct(self, _name: &'static str, _len: usize) -> Result<Compound<'a>, Err> {
        // Structs are written the way compact formats write them: a plain sequence of the fields
        // (brood's visitors accept both forms).  The self-describing form with field names would
        // put string comparisons on every control-flow decision of the decoder, which the symbolic
        // executor cannot fold; field-name dispatch is outside the claim.
        self.push(Tok::Tuple)?;
        Ok(Compound { ser: self, end: Tok::TupleEnd })
    }
    fn serialize_struct_variant(self, _n: &'static str, _i: u32, _v: &'static str, _len: usize) -> Result<Compound<'a>, Err> {
        Result::Err(Err(3))
    }
    fn collect_str<T: ?Sized + fmt::Display>(self, _value: &T) -> Result<(), Err> {
        Result::Err(Err(3))
    }
}

impl<'a> ser::SerializeSeq for Compound<'a> {
    type Ok = ();
    type Error = Err;
    fn serialize_element<T: ?Sized + Serialize>(&mut self, value: &T) -> Result<(), Err> {
        value.serialize(&mut *self.ser)
    }
    fn end(self) -> Result<(), Err> {
        self.ser.push(self.end)
    }
}
impl<'a> ser::SerializeTuple for Compound<'a> {
    type Ok = ();
    type Error = Err;
    fn serialize_element<T: ?Sized + Serialize>(&mut self, value: &T) -> Result<(), Err> {
        value.serialize(&mut *self.ser)
    }
    fn end(self) -> Result<(), Err> {
        self.ser.push(self.end)
    }
}
impl<'a> ser::SerializeTupleStruct for Compound<'a> {
    type Ok = ();
    type Error = Err;
    fn serialize_field<T: ?Sized + Serialize>(&mut self, value: &T) -> Result<(), Err> {
        value.serialize(&mut *self.ser)
    }
    fn end(self) -> Result<(), Err> {
        self.ser.push(self.end)
    }
}
impl<'a> ser::SerializeTupleVariant for Compound<'a> {
    type Ok = ();
    type Error = Err;
    fn serialize_field<T: ?Sized + Serialize>(&mut self, value: &T) -> Result<(), Err> {
        value.serialize(&mut *self.ser)
    }
    fn end(self) -> Result<(), Err> {
        self.ser.push(self.end)
    }
}
impl<'a> ser::SerializeMap for Compound<'a> {
    type Ok = ();
    type Error = Err;
    fn serialize_key<T: ?Sized + Serialize>(&mut self, key: &T) -> Result<(), Err> {
        key.serialize(&mut *self.ser)
    }
    fn serialize_value<T: ?Sized + Serialize>(&mut self, value: &T) -> Result<(), Err> {
        value.serialize(&mut *self.ser)
    }
    fn end(self) -> Result<(), Err> {
        self.ser.push(self.end)
    }
}
impl<'a> ser::SerializeStruct for Compound<'a> {
    type Ok = ();
    type Error = Err;
    fn serialize_field<T: ?Sized + Serialize>(&mut self, key: &'static str, value: &T) -> Result<(), Err> {
        let _ = key;
        value.serialize(&mut *self.ser)
    }
    fn end(self) -> Result<(), Err> {
        self.ser.push(self.end)
    }
}
impl<'a> ser::SerializeStructVariant for Compound<'a> {
    type Ok = ();
    type Error = Err;
    fn serialize_field<T: ?Sized + Serialize>(&mut self, _key: &'static str, value: &T) -> Result<(), Err> {
        value.serialize(&mut *self.ser)
    }
    fn end(self) -> Result<(), Err> {
        self.ser.push(self.end)
    }
}

// ------------------------------------------------------------------------------------------
// Deserializer
// ------------------------------------------------------------------------------------------

pub struct De {
    pub toks: Stream,
    pub len: usize,
    pub pos: usize,
    /// reading the token at this position fails (an I/O or syntax error of the data format)
    pub fail_at: usize,
    pub human_readable: bool,
}

impl De {
    pub fn new(toks: Stream, len: usize, human_readable: bool) -> Self {
        De {
            toks,
            len,
            pos: 0,
            fail_at: usize::MAX,
            human_readable,
        }
    }

    /// Tag of the token under the cursor; 254 = the read fails, 255 = end of input.  (Plain
    /// scalars on purpose: a `Result<Tok, _>` travels through memory and stops being a constant for
    /// the symbolic executor.)
    pub fn cur_kind(&self) -> u8 {
        if self.pos == self.fail_at {
            254
        } else if self.pos >= self.len || self.pos >= NTOK {
            255
        } else {
            self.toks.kinds[self.pos]
        }
    }

    pub fn next(&mut self) -> Result<Tok, Err> {
        let k = self.cur_kind();
        if k >= 254 {
            return Result::Err(Err(k));
        }
        let t = self.toks.get(self.pos);
        self.pos += 1;
        Ok(t)
    }

    fn expect(&mut self, kind: u8) -> Result<(), Err> {
        let k = self.cur_kind();
        if k >= 254 {
            return Result::Err(Err(k));
        }
        if k != kind {
            return Result::Err(Err(4));
        }
        self.pos += 1;
        Ok(())
    }
}

struct Access<'a> {
    de: &'a mut De,
    end: Tok,
}

impl<'de, 'a> SeqAccess<'de> for Access<'a> {
    type Error = Err;

    fn next_element_seed<T: DeserializeSeed<'de>>(&mut self, seed: T) -> Result<Option<T::Value>, Err> {
        let k = self.de.cur_kind();
        if k >= 254 {
            return Result::Err(Err(k));
        }
        if k == self.end.kind() {
            return Ok(None);
        }
        match seed.deserialize(&mut *self.de) {
            Ok(v) => Ok(Some(v)),
            Result::Err(e) => Result::Err(e),
        }
    }
}

impl<'de, 'a> MapAccess<'de> for Access<'a> {
    type Error = Err;

    fn next_key_seed<K: DeserializeSeed<'de>>(&mut self, seed: K) -> Result<Option<K::Value>, Err> {
        let k = self.de.cur_kind();
        if k >= 254 {
            return Result::Err(Err(k));
        }
        if k == self.end.kind() {
            return Ok(None);
        }
        match seed.deserialize(&mut *self.de) {
            Ok(v) => Ok(Some(v)),
            Result::Err(e) => Result::Err(e),
        }
    }

    fn next_value_seed<V: DeserializeSeed<'de>>(&mut self, seed: V) -> Result<V::Value, Err> {
        seed.deserialize(&mut *self.de)
    }
}

impl<'de, 'a> Deserializer<'de> for &'a mut De {
    type Error = Err;

    fn is_human_readable(&self) -> bool {
        self.human_readable
    }

    fn deserialize_any<V: Visitor<'de>>(self, visitor: V) -> Result<V::Value, Err> {
        let k = self.cur_kind();
        if k >= 254 {
            return Result::Err(Err(k));
        }
        let v = self.toks.vals[self.pos];
        self.pos += 1;
        match k {
            1 => visitor.visit_u8(v as u8),
            2 => visitor.visit_u16(v as u16),
            3 => visitor.visit_u32(v as u32),
            4 => visitor.visit_u64(v),
            5 => visitor.visit_unit(),
            7 => {
                let r = visitor.visit_seq(Access { de: &mut *self, end: Tok::SeqEnd })?;
                self.expect(Tok::SeqEnd.kind())?;
                Ok(r)
            }
            9 => {
                let r = visitor.visit_seq(Access { de: &mut *self, end: Tok::TupleEnd })?;
                self.expect(Tok::TupleEnd.kind())?;
                Ok(r)
            }
            13 => visitor.visit_newtype_struct(self),
            _ => Result::Err(Err(5)),
        }
    }

    serde::forward_to_deserialize_any! {
        bool i8 i16 i32 i64 i128 u8 u16 u32 u64 u128 f32 f64 char str string
        bytes byte_buf option unit unit_struct newtype_struct seq tuple
        tuple_struct map struct enum identifier ignored_any
    }
}

// ------------------------------------------------------------------------------------------
// serde impls of the vocabulary components
// ------------------------------------------------------------------------------------------

macro_rules! num_component {
    ($C:ident, $ty:ty, $ser:ident, $visit:ident) => {
        impl Serialize for $C {
            fn serialize<S: Serializer>(&self, serializer: S) -> Result<S::Ok, S::Error> {
                serializer.$ser(self.0)
            }
        }
        impl<'de> Deserialize<'de> for $C {
            fn deserialize<Dz: Deserializer<'de>>(deserializer: Dz) -> Result<Self, Dz::Error> {
                struct Vis;
                impl<'de> Visitor<'de> for Vis {
                    type Value = $C;
                    fn expecting(&self, f: &mut fmt::Formatter<'_>) -> fmt::Result {
                        f.write_str("a number")
                    }
                    fn $visit<E: de::Error>(self, v: $ty) -> Result<$C, E> {
                        Ok($C(v))
                    }
                }
                deserializer.deserialize_any(Vis)
            }
        }
    };
}
num_component!(A, u32, serialize_u32, visit_u32);
num_component!(B, u8, serialize_u8, visit_u8);
num_component!(W, u64, serialize_u64, visit_u64);
num_component!(H, u16, serialize_u16, visit_u16);

impl Serialize for Z {
    fn serialize<S: Serializer>(&self, serializer: S) -> Result<S::Ok, S::Error> {
        serializer.serialize_unit()
    }
}
impl<'de> Deserialize<'de> for Z {
    fn deserialize<Dz: Deserializer<'de>>(deserializer: Dz) -> Result<Self, Dz::Error> {
        struct Vis;
        impl<'de> Visitor<'de> for Vis {
            type Value = Z;
            fn expecting(&self, f: &mut fmt::Formatter<'_>) -> fmt::Result {
                f.write_str("unit")
            }
            fn visit_unit<E: de::Error>(self) -> Result<Z, E> {
                Ok(Z)
            }
        }
        deserializer.deserialize_any(Vis)
    }
}

impl Serialize for D {
    fn serialize<S: Serializer>(&self, serializer: S) -> Result<S::Ok, S::Error> {
        serializer.serialize_u8(self.val)
    }
}
impl<'de> Deserialize<'de> for D {
    fn deserialize<Dz: Deserializer<'de>>(deserializer: Dz) -> Result<Self, Dz::Error> {
        struct Vis;
        impl<'de> Visitor<'de> for Vis {
            type Value = D;
            fn expecting(&self, f: &mut fmt::Formatter<'_>) -> fmt::Result {
                f.write_str("a ledger value")
            }
            fn visit_u8<E: de::Error>(self, v: u8) -> Result<D, E> {
                // a deserialized value is a new, independently owned value
                Ok(D::mint(v))
            }
        }
        deserializer.deserialize_any(Vis)
    }
}

// the nine-component family (used by the duplicate-registry deserialization instances)
num_component!(C0, u8, serialize_u8, visit_u8);
num_component!(C1, u8, serialize_u8, visit_u8);
num_component!(C2, u8, serialize_u8, visit_u8);
num_component!(C3, u8, serialize_u8, visit_u8);
num_component!(C4, u8, serialize_u8, visit_u8);
num_component!(C5, u8, serialize_u8, visit_u8);
num_component!(C6, u8, serialize_u8, visit_u8);
num_component!(C7, u8, serialize_u8, visit_u8);
num_component!(C8, u16, serialize_u16, visit_u16);
