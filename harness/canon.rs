// C01: "whatever order components are written in entity!/entities!": the canonical reordering of a
// user's entity / batch into registry order, and the archetype identifier created for it.

use super::common::*;
use crate::{
    entities,
    entity,
    registry::{
        contains::{
            entities::Sealed as ContainsEntitiesSealed,
            entity::Sealed as ContainsEntitySealed,
        },
        Canonical,
    },
};
use alloc::{
    vec,
    vec::Vec,
};

fn canon_entity<R, E, I>(e: E) -> (<R as ContainsEntitySealed<E, I>>::Canonical, Vec<u8>)
where
    R: ContainsEntitySealed<E, I>,
{
    let c = <R as ContainsEntitySealed<E, I>>::canonical(e);
    let id = <R as Canonical<
        <R as ContainsEntitySealed<E, I>>::Canonical,
        <R as ContainsEntitySealed<E, I>>::CanonicalContainments,
    >>::create_archetype_identifier();
    // SAFETY: the buffer is live.
    let bytes = unsafe { id.as_slice() }.to_vec();
    (c, bytes)
}

#[kani::proof]
#[kani::unwind(6)]
pub fn canon_q_r9_three_components_scrambled() {
    let (x, y, z): (u16, u8, u8) = (kani::any(), kani::any(), kani::any());
    // written as (last, first, eighth); canonical order is (first, eighth, last)
    let ((c0, (c7, (c8, entity::Null))), bytes) = canon_entity::<R9, _, _>(crate::entity!(C8(x), C0(y), C7(z)));
    vassert!(c0 == C0(y) && c7 == C7(z) && c8 == C8(x), "every component keeps its own value after reordering");
    vassert!(bytes.len() == 2 && bytes[0] == 0b1000_0001 && bytes[1] == 0b0000_0001, "identifier has exactly the bits of the entity's components, across the byte boundary");
    let ((d7, (d8, entity::Null)), bytes2) = canon_entity::<R9, _, _>(crate::entity!(C8(x), C7(z)));
    vassert!(d7 == C7(z) && d8 == C8(x), "two components, reversed");
    vassert!(bytes2[0] == 0b1000_0000 && bytes2[1] == 1, "identifier of the two-component entity");
    kani::cover!(true, "reached end");
}

#[kani::proof]
#[kani::unwind(6)]
pub fn canon_q_dbwa_all_orders_of_three() {
    let (a, w, b): (u32, u64, u8) = (kani::any(), kani::any(), kani::any());
    // registry order is (D, B, W, A): canonical of any order of {A, W, B} is (B, W, A), bits 0b1110
    let ((b1, (w1, (a1, entity::Null))), i1) = canon_entity::<RDBWA, _, _>(crate::entity!(A(a), W(w), B(b)));
    let ((b2, (w2, (a2, entity::Null))), i2) = canon_entity::<RDBWA, _, _>(crate::entity!(A(a), B(b), W(w)));
    let ((b3, (w3, (a3, entity::Null))), i3) = canon_entity::<RDBWA, _, _>(crate::entity!(W(w), A(a), B(b)));
    let ((b4, (w4, (a4, entity::Null))), i4) = canon_entity::<RDBWA, _, _>(crate::entity!(W(w), B(b), A(a)));
    let ((b5, (w5, (a5, entity::Null))), i5) = canon_entity::<RDBWA, _, _>(crate::entity!(B(b), A(a), W(w)));
    let ((b6, (w6, (a6, entity::Null))), i6) = canon_entity::<RDBWA, _, _>(crate::entity!(B(b), W(w), A(a)));
    vassert!(b1 == B(b) && w1 == W(w) && a1 == A(a), "order A W B");
    vassert!(b2 == B(b) && w2 == W(w) && a2 == A(a), "order A B W");
    vassert!(b3 == B(b) && w3 == W(w) && a3 == A(a), "order W A B");
    vassert!(b4 == B(b) && w4 == W(w) && a4 == A(a), "order W B A");
    vassert!(b5 == B(b) && w5 == W(w) && a5 == A(a), "order B A W");
    vassert!(b6 == B(b) && w6 == W(w) && a6 == A(a), "order B W A");
    vassert!(i1[0] == 0b1110 && i2[0] == 0b1110 && i3[0] == 0b1110 && i4[0] == 0b1110 && i5[0] == 0b1110 && i6[0] == 0b1110, "same component set, same identifier, whatever the written order");
    let (entity::Null, i0) = canon_entity::<RDBWA, _, _>(crate::entity!());
    vassert!(i0[0] == 0, "the empty entity has the empty identifier");
    kani::cover!(true, "reached end");
}

#[kani::proof]
#[kani::unwind(6)]
pub fn canon_q_batch_columns_reordered() {
    let (a0, a1, b0, b1): (u32, u32, u8, u8) = (kani::any(), kani::any(), kani::any(), kani::any());
    let (h0, h1): (u16, u16) = (kani::any(), kani::any());
    type RABH = crate::Registry!(A, B, H);
    // columns written as (H, A, B); canonical order is (A, B, H)
    let batch = (vec![H(h0), H(h1)], (vec![A(a0), A(a1)], (vec![B(b0), B(b1)], entities::Null)));
    let (ca, (cb, (ch, entities::Null))) = <RABH as ContainsEntitiesSealed<_, _>>::canonical(batch);
    vassert!(ca.len() == 2 && cb.len() == 2 && ch.len() == 2, "every column keeps its length");
    vassert!(ca[0] == A(a0) && ca[1] == A(a1), "column A keeps its rows in order");
    vassert!(cb[0] == B(b0) && cb[1] == B(b1), "column B keeps its rows in order");
    vassert!(ch[0] == H(h0) && ch[1] == H(h1), "column H keeps its rows in order");
    kani::cover!(true, "reached end");
}
