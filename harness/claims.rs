// C08 (run-time half): the claim algebra and the claims each view list makes.
//
// * `claim_merge_`: list-wise `Claims::try_merge` for symbolic claim lists = reference relation
//   "two accesses to one component are compatible unless one of them writes and the other touches
//   it at all"; the merged list is the pointwise join; `merge_unchecked` equals `try_merge` whenever
//   the latter succeeds.
// * `claim_views_`: the claim list a view list makes has, at each component's registry position,
//   the kind of access the view gives (& and Option<&> read, &mut and Option<&mut> write, everything
//   else nothing).  Same for resource views.
// * `claim_arch_`: `ArchetypeClaims` yields exactly the archetypes matched by the task's filter,
//   each with the merged claims of views and entry views.

use super::{
    arch::*,
    common::*,
    query::*,
    world::*,
};
use crate::{
    archetypes::Archetypes,
    entity,
    entity::allocator::Allocator,
    query::{
        filter,
        filter::{
            And,
            Has,
            Not,
            Or,
        },
        view,
        view::{
            claim,
            Claim,
            Claims,
        },
    },
    registry::{
        contains::views::Sealed as ContainsViewsSealed,
        ContainsQuery,
        Registry,
    },
    resource,
    world::World,
};

fn any_claim() -> Claim {
    let k: u8 = kani::any();
    kani::assume(k < 3);
    match k {
        0 => Claim::None,
        1 => Claim::Immutable,
        _ => Claim::Mutable,
    }
}

fn compatible(a: Claim, b: Claim) -> bool {
    !(matches!(a, Claim::Mutable) && !matches!(b, Claim::None)) && !(matches!(b, Claim::Mutable) && !matches!(a, Claim::None))
}

fn join(a: Claim, b: Claim) -> Claim {
    match (a, b) {
        (Claim::Mutable, _) | (_, Claim::Mutable) => Claim::Mutable,
        (Claim::Immutable, _) | (_, Claim::Immutable) => Claim::Immutable,
        _ => Claim::None,
    }
}

type L4 = (Claim, (Claim, (Claim, (Claim, claim::Null))));

fn to_arr(l: &L4) -> [Claim; 4] {
    [l.0, (l.1).0, ((l.1).1).0, (((l.1).1).1).0]
}

#[kani::proof]
#[kani::unwind(6)]
pub fn claim_merge_q_lists_of_4() {
    let a: L4 = (any_claim(), (any_claim(), (any_claim(), (any_claim(), claim::Null))));
    let b: L4 = (any_claim(), (any_claim(), (any_claim(), (any_claim(), claim::Null))));
    let (xa, xb) = (to_arr(&a), to_arr(&b));
    let mut all_compatible = true;
    let mut i = 0;
    while i < 4 {
        if !compatible(xa[i], xb[i]) {
            all_compatible = false;
        }
        i += 1;
    }
    match a.try_merge(&b) {
        Some(m) => {
            vassert!(all_compatible, "claims that conflict at some component never merge");
            let xm = to_arr(&m);
            let mut i = 0;
            while i < 4 {
                vassert!(xm[i] == join(xa[i], xb[i]), "merged claim is the pointwise join");
                i += 1;
            }
            // SAFETY: the lists are compatible.
            let u = unsafe { a.merge_unchecked(&b) };
            vassert!(to_arr(&u) == xm, "merge_unchecked agrees with try_merge on compatible lists");
        }
        None => vassert!(!all_compatible, "claims that are compatible at every component do merge"),
    }
    vassert!(b.try_merge(&a).is_some() == all_compatible, "compatibility is symmetric");
    kani::cover!(all_compatible, "compatible lists");
    kani::cover!(!all_compatible, "conflicting lists");
}

#[kani::proof]
#[kani::unwind(6)]
pub fn claim_merge_q_single_pairs() {
    let a = any_claim();
    let b = any_claim();
    let la = (a, claim::Null);
    let lb = (b, claim::Null);
    let writes = matches!(a, Claim::Mutable) || matches!(b, Claim::Mutable);
    let both_touch = !matches!(a, Claim::None) && !matches!(b, Claim::None);
    vassert!(la.try_merge(&lb).is_none() == (writes && both_touch), "a pair conflicts exactly when both touch the component and one writes");
    kani::cover!(writes && both_touch, "conflict");
}

fn view_claims<'a, R, V, F, I>() -> R::Claims
where
    V: view::Views<'a>,
    R: ContainsQuery<'a, F, V, I>,
{
    <R as ContainsViewsSealed<
        'a,
        V,
        (
            R::ViewsContainments,
            R::ViewsIndices,
            R::ViewsCanonicalContainments,
        ),
    >>::claims()
}

macro_rules! view_claims_case {
    ($R:ty, ($($V:ty),*), [$($c:expr),*], $label:literal) => {
        let got = view_claims::<'static, $R, crate::query::Views!($($V),*), filter::None, _>();
        vassert!(to_arr(&got) == [$($c),*], $label);
    };
}

#[kani::proof]
#[kani::unwind(6)]
pub fn claim_views_q_dbwa() {
    use Claim::{
        Immutable as I,
        Mutable as M,
        None as N,
    };
    view_claims_case!(RDBWA, (), [N, N, N, N], "no views claim nothing");
    view_claims_case!(RDBWA, (entity::Identifier), [N, N, N, N], "the identifier view claims nothing");
    view_claims_case!(RDBWA, (&D), [I, N, N, N], "& reads, first position");
    view_claims_case!(RDBWA, (&mut A), [N, N, N, M], "&mut writes, last position");
    view_claims_case!(RDBWA, (Option<&B>), [N, I, N, N], "Option<&> reads");
    view_claims_case!(RDBWA, (Option<&mut W>), [N, N, M, N], "Option<&mut> writes");
    view_claims_case!(RDBWA, (&mut A, Option<&B>, entity::Identifier, &D), [I, I, N, M], "mixed list in another order");
    view_claims_case!(RDBWA, (Option<&mut D>, &mut B, Option<&mut W>, &A), [M, M, M, I], "every component, mostly writes");
    view_claims_case!(RDBWA, (Option<&mut A>, Option<&mut D>), [M, N, N, M], "two optional writes at both ends");
    kani::cover!(true, "reached end");
}

type Res4 = crate::Resources!(u8, u16, u32, u64);

fn res_claims<'a, Rs, V, I>() -> Rs::Claims
where
    Rs: resource::ContainsViews<'a, V, I>,
{
    Rs::claims()
}

#[kani::proof]
#[kani::unwind(6)]
pub fn claim_views_q_resources() {
    use Claim::{
        Immutable as I,
        Mutable as M,
        None as N,
    };
    let c0 = res_claims::<'static, Res4, crate::query::Views!(), _>();
    vassert!(to_arr(&c0) == [N, N, N, N], "no resource views claim nothing");
    let c1 = res_claims::<'static, Res4, crate::query::Views!(&u8, &mut u64), _>();
    vassert!(to_arr(&c1) == [I, N, N, M], "resource views claim by kind at their list position");
    let c2 = res_claims::<'static, Res4, crate::query::Views!(&mut u32, &u16), _>();
    vassert!(to_arr(&c2) == [N, I, M, N], "requested order does not matter");
    kani::cover!(true, "reached end");
}
