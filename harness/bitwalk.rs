// Concrete-length companions of engine E3b (smt/bitwalk.py): the identifier bit iterator and
// `get_unchecked` for registries of length 0, 1, 2, 3, 4, 8, 9 and 16 over *symbolic identifier
// bytes*, compared bit by bit with a reference and under CBMC's memory checks (a read past the
// identifier buffer is a dereference failure).  They serve two purposes: the Kani instantiation of
// the bit walk for the lengths around the byte boundaries, and the replay target for a
// counterexample of E3b (which the SMT engine re-solves for one of these lengths).

use super::common::*;
use crate::{
    archetype,
    registry::Registry,
};
use alloc::vec::Vec;

macro_rules! bitwalk {
    ($name:ident, $R:ty, len = $LEN:expr) => {
        #[kani::proof]
        #[kani::unwind(20)]
        pub fn $name() {
            const LEN: usize = $LEN;
            const NB: usize = (LEN + 7) / 8;
            let bytes: [u8; NB] = kani::any();
            if LEN % 8 != 0 {
                kani::assume((bytes[NB - 1] as u32) >> (LEN % 8) == 0);
            }
            let mut v = Vec::with_capacity(NB);
            let mut i = 0;
            while i < NB {
                v.push(bytes[i]);
                i += 1;
            }
            let id = ident::<$R>(v);
            // SAFETY: `id` outlives the iterator and the reference.
            let mut it = unsafe { id.iter() };
            let r = unsafe { id.as_ref() };
            let mut k = 0;
            while k < LEN {
                let want = (bytes[k / 8] >> (k % 8)) & 1 != 0;
                match it.next() {
                    Some(b) => vassert!(b == want, "the k-th call of the bit iterator returns bit k of the identifier"),
                    None => vassert!(false, "the bit iterator yields exactly LEN bits"),
                }
                // SAFETY: k < LEN.
                vassert!(unsafe { r.get_unchecked(k) } == want, "get_unchecked(k) returns bit k of the identifier");
                k += 1;
            }
            vassert!(it.next().is_none(), "the bit iterator ends after LEN bits");
            vassert!(it.next().is_none(), "and stays ended");
            let mut count = 0;
            let mut k = 0;
            while k < LEN {
                if (bytes[k / 8] >> (k % 8)) & 1 != 0 {
                    count += 1;
                }
                k += 1;
            }
            vassert!(id.count() == count, "count() is the number of set bits");
            kani::cover!(true, "reached end");
        }
    };
}

bitwalk!(bitwalk_q_len0, R0, len = 0);
bitwalk!(bitwalk_q_len1, R1, len = 1);
bitwalk!(bitwalk_q_len2, RAB, len = 2);
bitwalk!(bitwalk_q_len3, RAZD, len = 3);
bitwalk!(bitwalk_q_len4, RDBWA, len = 4);
bitwalk!(bitwalk_q_len8, R8, len = 8);
bitwalk!(bitwalk_q_len9, R9, len = 9);
bitwalk!(bitwalk_q_len16, R16, len = 16);
