// C15: resources are addressed by type and untouched by entity operations.

use super::common::*;
use crate::{
    query::filter,
    resource,
    world::World,
};

type Res3 = crate::Resources!(u8, u16, u32);

#[kani::proof]
#[kani::unwind(12)]
pub fn rsrc_q_get_view_write() {
    let (v8, v16, v32): (u8, u16, u32) = (kani::any(), kani::any(), kani::any());
    let mut w = World::<RAB, Res3>::with_resources(crate::resources!(v8, v16, v32));
    vassert!(*w.get::<u8, _>() == v8, "get returns the first resource by type");
    vassert!(*w.get::<u16, _>() == v16, "get returns the middle resource by type");
    vassert!(*w.get::<u32, _>() == v32, "get returns the last resource by type");
    let n16: u16 = kani::any();
    *w.get_mut::<u16, _>() = n16;
    vassert!(*w.get::<u16, _>() == n16, "a write through get_mut is visible through get");
    vassert!(*w.get::<u8, _>() == v8 && *w.get::<u32, _>() == v32, "other resources untouched by the write");
    // views in an order different from the resource list, mixed mutability
    let n32: u32 = kani::any();
    {
        let crate::query::result!(r32, r8) = w.view_resources::<crate::query::Views!(&mut u32, &u8), _>();
        vassert!(*r8 == v8, "view of the first resource requested second");
        vassert!(*r32 == v32, "view of the last resource requested first");
        *r32 = n32;
    }
    {
        let crate::query::result!(r32, r16, r8) = w.view_resources::<crate::query::Views!(&u32, &u16, &mut u8), _>();
        vassert!(*r16 == n16 && *r32 == n32 && *r8 == v8, "all three views, reversed order, see every earlier write");
        *r8 = r8.wrapping_add(1);
    }
    vassert!(*w.get::<u8, _>() == v8.wrapping_add(1), "a write through a view is visible through get");
    {
        let crate::query::result!() = w.view_resources::<crate::query::Views!(), _>();
    }
    vassert!(*w.verif_resources() == crate::resources!(v8.wrapping_add(1), n16, n32), "the resource list holds exactly the written values, in list order");
    kani::cover!(true, "reached end");
    core::mem::forget(w);
}

#[kani::proof]
#[kani::unwind(12)]
pub fn rsrc_q_entity_ops_leave_resources() {
    let (v8, v16, v32): (u8, u16, u32) = (kani::any(), kani::any(), kani::any());
    let mut w = World::<RAB, Res3>::with_resources(crate::resources!(v8, v16, v32));
    let id = w.insert(crate::entity!(A(kani::any()), B(kani::any())));
    vassert!(*w.verif_resources() == crate::resources!(v8, v16, v32), "insert leaves every resource alone");
    w.reserve::<crate::Entity!(A, B), _>(1);
    vassert!(*w.verif_resources() == crate::resources!(v8, v16, v32), "reserve leaves every resource alone");
    vassert!(w.contains(id), "entity still there");
    kani::cover!(true, "reached end");
    core::mem::forget(w);
}

#[kani::proof]
#[kani::unwind(12)]
pub fn rsrc_t_clone_and_clone_from() {
    let (v8, v16, v32): (u8, u16, u32) = (kani::any(), kani::any(), kani::any());
    let (d8, d16, d32): (u8, u16, u32) = (kani::any(), kani::any(), kani::any());
    let src = World::<RAB, Res3>::with_resources(crate::resources!(v8, v16, v32));
    let mut dst = World::<RAB, Res3>::with_resources(crate::resources!(d8, d16, d32));
    let c = src.clone();
    vassert!(*c.verif_resources() == crate::resources!(v8, v16, v32), "clone copies every resource");
    vassert!(c == src, "an (empty) world equals its clone, resources included");
    let differs = d8 != v8 || d16 != v16 || d32 != v32;
    vassert!((dst == src) == !differs, "worlds differing in any resource are unequal, and only those");
    dst.clone_from(&src);
    vassert!(*dst.verif_resources() == crate::resources!(v8, v16, v32), "clone_from replaces every resource by the source's");
    *dst.get_mut::<u32, _>() = v32.wrapping_add(1);
    vassert!(*src.get::<u32, _>() == v32, "writing a clone's resource leaves the source alone");
    kani::cover!(differs, "destination differed");
    core::mem::forget(src);
    core::mem::forget(dst);
    core::mem::forget(c);
}

#[kani::proof]
#[kani::unwind(12)]
pub fn rsrc_t_single_and_none() {
    let v: u64 = kani::any();
    let mut w = World::<RAB, crate::Resources!(u64)>::with_resources(crate::resources!(v));
    vassert!(*w.get::<u64, _>() == v, "single resource");
    {
        let crate::query::result!(r) = w.view_resources::<crate::query::Views!(&mut u64), _>();
        *r = !*r;
    }
    vassert!(*w.get::<u64, _>() == !v, "write through the only view");
    let mut n = World::<RAB>::new();
    {
        let crate::query::result!() = n.view_resources::<crate::query::Views!(), _>();
    }
    kani::cover!(true, "reached end");
    core::mem::forget(w);
    core::mem::forget(n);
}
