// Shared vocabulary: components, registries, state constructors (one per representation
// invariant of DESIGN.md §2), audits and the drop ledger.

use crate::{
    archetype,
    archetype::Archetype,
    entity,
    entity::allocator::{
        Allocator,
        Location,
        Slot,
    },
    registry::Registry,
};
use alloc::{
    collections::VecDeque,
    vec,
    vec::Vec,
};
use core::mem::ManuallyDrop;

// ------------------------------------------------------------------------------------------
// Components.  Sizes/alignments are all different so that a wrong column, a wrong length or a
// wrong capacity changes an object size or an access width that CBMC checks.
// ------------------------------------------------------------------------------------------

#[derive(Clone, Copy, Debug, PartialEq, Eq)]
pub struct A(pub u32);
#[derive(Clone, Copy, Debug, PartialEq, Eq)]
pub struct B(pub u8);
#[derive(Clone, Copy, Debug, PartialEq, Eq)]
pub struct Z;
#[derive(Clone, Copy, Debug, PartialEq, Eq)]
#[repr(align(16))]
pub struct W(pub u64);
#[derive(Clone, Copy, Debug, PartialEq, Eq)]
pub struct H(pub u16);

impl kani::Arbitrary for A {
    fn any() -> Self {
        A(kani::any())
    }
}
impl kani::Arbitrary for B {
    fn any() -> Self {
        B(kani::any())
    }
}
impl kani::Arbitrary for Z {
    fn any() -> Self {
        Z
    }
}
impl kani::Arbitrary for W {
    fn any() -> Self {
        W(kani::any())
    }
}
impl kani::Arbitrary for H {
    fn any() -> Self {
        H(kani::any())
    }
}

// ------------------------------------------------------------------------------------------
// Drop ledger.  `D` values carry an identity; `Drop` counts per identity, `Clone` mints a fresh
// identity and records where it came from.
// ------------------------------------------------------------------------------------------

pub const LEDGER_SIZE: usize = 16;
pub static mut LEDGER: [u8; LEDGER_SIZE] = [0; LEDGER_SIZE];
pub static mut PARENT: [u8; LEDGER_SIZE] = [255; LEDGER_SIZE];
pub static mut MINTED: u8 = 0;

#[derive(Debug)]
pub struct D {
    pub id: u8,
    /// payload carried along so that value preservation is checked independently of identity
    pub val: u8,
}

impl D {
    pub fn mint(val: u8) -> Self {
        // SAFETY: harnesses are single threaded.
        unsafe {
            let id = MINTED;
            MINTED += 1;
            vassert!((id as usize) < LEDGER_SIZE, "ledger overflow (harness bug)");
            D { id, val }
        }
    }
}

impl Drop for D {
    fn drop(&mut self) {
        // SAFETY: harnesses are single threaded.
        unsafe {
            assert!((self.id as usize) < LEDGER_SIZE, "drop of a D with a garbage identity");
            LEDGER[self.id as usize] += 1;
        }
    }
}

impl Clone for D {
    fn clone(&self) -> Self {
        let d = D::mint(self.val);
        // SAFETY: harnesses are single threaded.
        unsafe {
            PARENT[d.id as usize] = self.id;
        }
        d
    }
}

impl PartialEq for D {
    fn eq(&self, other: &Self) -> bool {
        self.val == other.val
    }
}

pub fn ledger(id: u8) -> u8 {
    // SAFETY: harnesses are single threaded.
    unsafe { LEDGER[id as usize] }
}

pub fn minted() -> u8 {
    // SAFETY: harnesses are single threaded.
    unsafe { MINTED }
}

// ------------------------------------------------------------------------------------------
// Registries.
// ------------------------------------------------------------------------------------------

pub type RAB = crate::Registry!(A, B);
pub type RAZD = crate::Registry!(A, Z, D);
pub type RDBWA = crate::Registry!(D, B, W, A);
pub type R0 = crate::Registry!();
pub type R1 = crate::Registry!(A);

// Nine components: bit 8 lives in the second identifier byte.
#[derive(Clone, Copy, Debug, PartialEq, Eq)]
pub struct C0(pub u8);
#[derive(Clone, Copy, Debug, PartialEq, Eq)]
pub struct C1(pub u8);
#[derive(Clone, Copy, Debug, PartialEq, Eq)]
pub struct C2(pub u8);
#[derive(Clone, Copy, Debug, PartialEq, Eq)]
pub struct C3(pub u8);
#[derive(Clone, Copy, Debug, PartialEq, Eq)]
pub struct C4(pub u8);
#[derive(Clone, Copy, Debug, PartialEq, Eq)]
pub struct C5(pub u8);
#[derive(Clone, Copy, Debug, PartialEq, Eq)]
pub struct C6(pub u8);
#[derive(Clone, Copy, Debug, PartialEq, Eq)]
pub struct C7(pub u8);
#[derive(Clone, Copy, Debug, PartialEq, Eq)]
pub struct C8(pub u16);
pub type R9 = crate::Registry!(C0, C1, C2, C3, C4, C5, C6, C7, C8);
pub type R8 = crate::Registry!(C0, C1, C2, C3, C4, C5, C6, C7);

// ------------------------------------------------------------------------------------------
// AllocInv(N, F): arbitrary allocator state of a concrete *shape* (N slots, F of them free)
// and symbolic *contents* (which slots are free and in which order, every generation, every
// location index).
// ------------------------------------------------------------------------------------------

/// A plain-array snapshot of an allocator, used as the reference model.
#[derive(Clone, Copy)]
pub struct SlotSnap {
    pub generation: u64,
    pub active: bool,
    pub loc_ptr: *const u8,
    pub loc_index: usize,
}

pub fn snap_slot<R: Registry>(slot: &Slot<R>) -> SlotSnap {
    match slot.location {
        Some(l) => SlotSnap {
            generation: slot.generation,
            active: true,
            loc_ptr: l.identifier.verif_pointer(),
            loc_index: l.index,
        },
        None => SlotSnap {
            generation: slot.generation,
            active: false,
            loc_ptr: core::ptr::null(),
            loc_index: 0,
        },
    }
}

pub fn snap_alloc<R: Registry, const N: usize>(a: &Allocator<R>) -> [SlotSnap; N] {
    vassert!(a.slots.len() == N, "snapshot size (harness bug)");
    let mut out = [SlotSnap {
        generation: 0,
        active: false,
        loc_ptr: core::ptr::null(),
        loc_index: 0,
    }; N];
    let mut i = 0;
    while i < N {
        out[i] = snap_slot(&a.slots[i]);
        i += 1;
    }
    out
}

/// Builds an allocator with `N` slots of which `F` are free.  Returns the allocator and the
/// free list (front first).  `idents` are the archetype identifiers active slots may point at;
/// which one and which row is symbolic (`max_index` bounds the row, exclusive, 0 = unconstrained).
pub fn any_allocator<R: Registry, const N: usize, const F: usize>(
    idents: &[archetype::IdentifierRef<R>],
) -> (Allocator<R>, [usize; F]) {
    let free_arr: [usize; F] = kani::any();
    let mut i = 0;
    while i < F {
        kani::assume(free_arr[i] < N);
        let mut j = 0;
        while j < i {
            kani::assume(free_arr[j] != free_arr[i]);
            j += 1;
        }
        i += 1;
    }
    let mut slots: Vec<Slot<R>> = Vec::with_capacity(N);
    let mut i = 0;
    while i < N {
        let generation: u64 = kani::any();
        kani::assume(generation < u64::MAX);
        let mut is_free = false;
        let mut j = 0;
        while j < F {
            if free_arr[j] == i {
                is_free = true;
            }
            j += 1;
        }
        let location = if is_free {
            None
        } else {
            let which: usize = kani::any();
            kani::assume(which < idents.len());
            Some(Location::new(idents[which], kani::any()))
        };
        slots.push(Slot {
            generation,
            location,
        });
        i += 1;
    }
    let mut free = VecDeque::with_capacity(F);
    let mut i = 0;
    while i < F {
        free.push_back(free_arr[i]);
        i += 1;
    }
    (Allocator { slots, free }, free_arr)
}

/// AllocInv: every free-list entry is in range, inactive and listed once; every inactive slot is
/// listed (counted).  Loops are over the *post* state, whose sizes are concrete in every harness.
pub fn alloc_inv<R: Registry>(a: &Allocator<R>) -> bool {
    let n = a.slots.len();
    let f = a.free.len();
    let mut i = 0;
    while i < f {
        let x = a.free[i];
        if x >= n {
            return false;
        }
        if a.slots[x].location.is_some() {
            return false;
        }
        let mut j = 0;
        while j < i {
            if a.free[j] == x {
                return false;
            }
            j += 1;
        }
        i += 1;
    }
    let mut inactive = 0;
    let mut i = 0;
    while i < n {
        if a.slots[i].location.is_none() {
            inactive += 1;
        }
        i += 1;
    }
    inactive == f
}

/// One identifier buffer of registry `R` with the given bytes.
pub fn ident<R: Registry>(bytes: Vec<u8>) -> archetype::Identifier<R> {
    // SAFETY: callers pass `(R::LEN + 7) / 8` bytes with clear padding.
    unsafe { archetype::Identifier::<R>::new(bytes) }
}

// Sixteen components: two full identifier bytes.
#[derive(Clone, Copy, Debug, PartialEq, Eq)]
pub struct C9(pub u8);
#[derive(Clone, Copy, Debug, PartialEq, Eq)]
pub struct C10(pub u8);
#[derive(Clone, Copy, Debug, PartialEq, Eq)]
pub struct C11(pub u8);
#[derive(Clone, Copy, Debug, PartialEq, Eq)]
pub struct C12(pub u8);
#[derive(Clone, Copy, Debug, PartialEq, Eq)]
pub struct C13(pub u8);
#[derive(Clone, Copy, Debug, PartialEq, Eq)]
pub struct C14(pub u8);
#[derive(Clone, Copy, Debug, PartialEq, Eq)]
pub struct C15(pub u8);
pub type R16 = crate::Registry!(C0, C1, C2, C3, C4, C5, C6, C7, C8, C9, C10, C11, C12, C13, C14, C15);
