// Static staging of two adjacent tasks, as resolved by rustc from brood's real impls: for every pair
// of view kinds on one component (and on one resource) the schedule's `Stages` type is compared with
// the expected shape: one stage holding both tasks when the accesses do not conflict (C12: not
// silently serialised), two stages otherwise (C08).  The verdict is rustc's trait resolution (a
// constant by the time Kani runs); these instances exist to validate the E3a table extraction
// against the real resolution and to replay its counterexamples.  Generated instance list.

use super::common::*;
use crate::{
    query::{
        filter,
        Result,
        Views,
    },
    registry,
    system::{
        schedule::{
            task,
            verif_names::{
                StageNull,
                StagesNull,
            },
            Schedule,
        },
        System,
    },
};
use core::any::TypeId;

#[derive(Clone, Copy)]
pub struct X(pub u32);
#[derive(Clone, Copy)]
pub struct Y(pub u32);
type RXY = crate::Registry!(X, Y);
type ResXY = crate::Resources!(X, Y);

fn stages_of<'a, S, R, Rs, I>() -> TypeId
where
    R: registry::Registry,
    Rs: crate::resource::Resources,
    S: Schedule<'a, R, Rs, I>,
    S::Stages: 'static,
{
    TypeId::of::<S::Stages>()
}

macro_rules! sys {
    ($name:ident, views = ($($V:ty),*), resources = ($($RV:ty),*)) => {
        pub struct $name;
        impl System for $name {
            type Views<'a> = Views!($($V),*);
            type Filter = filter::None;
            type ResourceViews<'a> = Views!($($RV),*);
            type EntryViews<'a> = Views!();

            fn run<'a, R, S, I, E>(
                &mut self,
                _query_results: Result<R, S, I, Self::ResourceViews<'a>, Self::EntryViews<'a>, E>,
            ) where
                R: registry::Registry,
                I: Iterator<Item = Self::Views<'a>>,
            {
            }
        }
    };
}

macro_rules! pair {
    ($harness:ident, $S1:ident, $S2:ident, same_stage = $SAME:expr) => {
        #[kani::proof]
        pub fn $harness() {
            let got = stages_of::<'static, (task::System<$S1>, (task::System<$S2>, task::Null)), RXY, ResXY, _>();
            let one = TypeId::of::<((&'static mut task::System<$S1>, (&'static mut task::System<$S2>, StageNull)), StagesNull)>();
            let two = TypeId::of::<((&'static mut task::System<$S1>, StageNull), ((&'static mut task::System<$S2>, StageNull), StagesNull))>();
            if $SAME {
                vassert!(got == one, "tasks whose accesses do not conflict share a stage");
            } else {
                vassert!(got == two, "tasks whose accesses conflict are in consecutive stages");
            }
            kani::cover!(true, "reached end");
        }
    };
}

sys!(C_IMM, views = (&'a X), resources = ());
sys!(C_MUT, views = (&'a mut X), resources = ());
sys!(C_OIMM, views = (Option<&'a X>), resources = ());
sys!(C_OMUT, views = (Option<&'a mut X>), resources = ());
sys!(C_OTHER, views = (&'a mut Y), resources = ());
sys!(R_IMM, views = (), resources = (&'a X));
sys!(R_MUT, views = (), resources = (&'a mut X));
sys!(R_OTHER, views = (), resources = (&'a mut Y));
pair!(stagepair_q_c_imm_then_imm, C_IMM, C_IMM, same_stage = true);
pair!(stagepair_q_c_imm_then_mut, C_IMM, C_MUT, same_stage = false);
pair!(stagepair_q_c_imm_then_oimm, C_IMM, C_OIMM, same_stage = true);
pair!(stagepair_q_c_imm_then_omut, C_IMM, C_OMUT, same_stage = false);
pair!(stagepair_q_c_mut_then_imm, C_MUT, C_IMM, same_stage = false);
pair!(stagepair_q_c_mut_then_mut, C_MUT, C_MUT, same_stage = false);
pair!(stagepair_q_c_mut_then_oimm, C_MUT, C_OIMM, same_stage = false);
pair!(stagepair_q_c_mut_then_omut, C_MUT, C_OMUT, same_stage = false);
pair!(stagepair_q_c_oimm_then_imm, C_OIMM, C_IMM, same_stage = true);
pair!(stagepair_q_c_oimm_then_mut, C_OIMM, C_MUT, same_stage = false);
pair!(stagepair_q_c_oimm_then_oimm, C_OIMM, C_OIMM, same_stage = true);
pair!(stagepair_q_c_oimm_then_omut, C_OIMM, C_OMUT, same_stage = false);
pair!(stagepair_q_c_omut_then_imm, C_OMUT, C_IMM, same_stage = false);
pair!(stagepair_q_c_omut_then_mut, C_OMUT, C_MUT, same_stage = false);
pair!(stagepair_q_c_omut_then_oimm, C_OMUT, C_OIMM, same_stage = false);
pair!(stagepair_q_c_omut_then_omut, C_OMUT, C_OMUT, same_stage = false);
pair!(stagepair_q_c_imm_then_other, C_IMM, C_OTHER, same_stage = true);
pair!(stagepair_q_c_mut_then_other, C_MUT, C_OTHER, same_stage = true);
pair!(stagepair_q_c_oimm_then_other, C_OIMM, C_OTHER, same_stage = true);
pair!(stagepair_q_c_omut_then_other, C_OMUT, C_OTHER, same_stage = true);
pair!(stagepair_q_r_imm_then_imm, R_IMM, R_IMM, same_stage = true);
pair!(stagepair_q_r_imm_then_mut, R_IMM, R_MUT, same_stage = false);
pair!(stagepair_q_r_mut_then_imm, R_MUT, R_IMM, same_stage = false);
pair!(stagepair_q_r_mut_then_mut, R_MUT, R_MUT, same_stage = false);
pair!(stagepair_q_r_mut_then_other, R_MUT, R_OTHER, same_stage = true);
pair!(stagepair_q_c_mut_then_r_mut, C_MUT, R_MUT, same_stage = true);

// view lists of two views: an unrelated (absent from the other task) view in front of the conflicting one,
// in registry order (X before Y) and in the written order of resources
sys!(C_IMMX_MUTY, views = (&'a X, &'a mut Y), resources = ());
sys!(C_OIMMX_MUTY, views = (Option<&'a X>, &'a mut Y), resources = ());
sys!(C_MUTX_IMMY, views = (&'a mut X, &'a Y), resources = ());
sys!(R_IMMX_MUTY, views = (), resources = (&'a X, &'a mut Y));
pair!(stagepair_q_c_list_other_then_immx_muty, C_OTHER, C_IMMX_MUTY, same_stage = false);
pair!(stagepair_q_c_list_other_then_oimmx_muty, C_OTHER, C_OIMMX_MUTY, same_stage = false);
pair!(stagepair_q_c_list_immx_muty_then_other, C_IMMX_MUTY, C_OTHER, same_stage = false);
pair!(stagepair_q_c_list_imm_then_mutx_immy, C_IMM, C_MUTX_IMMY, same_stage = false);
pair!(stagepair_q_c_list_other_then_imm, C_OTHER, C_IMM, same_stage = true);
pair!(stagepair_q_r_list_other_then_immx_muty, R_OTHER, R_IMMX_MUTY, same_stage = false);
pair!(stagepair_q_r_list_imm_then_immx_muty, R_IMM, R_IMMX_MUTY, same_stage = true);
