// One-step inductive harnesses over `Archetype<R>` composed with the allocator
// (C01 effect+frame, C02 stability/death, C04 ledger, C05 memory model, C13 LinkInv).

use super::{
    arch::*,
    common::*,
};
use crate::{
    archetype,
    archetype::Archetype,
    entity,
    entity::allocator::{
        Allocator,
        Location,
    },
};
use alloc::{
    vec,
    vec::Vec,
};

/// Ledger oracle: D cells of `rows` listed in `gone` were dropped exactly once, all others not yet.
fn ledger_rows<const N: usize>(before: &Snap<N>, dm: &[bool; MAXC], ncols: usize, gone: &[bool; N]) -> bool {
    let mut ok = true;
    let mut k = 0;
    while k < MAXC {
        if k < ncols && dm[k] {
            let mut r = 0;
            while r < N {
                if r < before.n {
                    let want = if gone[r] { 1 } else { 0 };
                    if ledger(d_id_of_fp(before.rows[r][k])) != want {
                        ok = false;
                    }
                }
                r += 1;
            }
        }
        k += 1;
    }
    ok
}

fn ledger_all_once() -> bool {
    let mut ok = true;
    let mut i = 0;
    while i < LEDGER_SIZE {
        if (i as u8) < minted() {
            if ledger(i as u8) != 1 {
                ok = false;
            }
        } else if ledger(i as u8) != 0 {
            ok = false;
        }
        i += 1;
    }
    ok
}

// ------------------------------------------------------------------------------------------
// World::remove = remove_row_unchecked(row) ; free_unchecked(id)
// ------------------------------------------------------------------------------------------

macro_rules! remove_step {
    ($name:ident, $R:ty, [$($b:expr),*], n = $N:expr, cap = $CAP:expr, s = $S:expr, f = $F:expr) => {
        #[kani::proof]
        #[kani::unwind(18)] // LEDGER_SIZE + 2
        pub fn $name() {
            const N: usize = $N;
            const S: usize = $S;
            const F: usize = $F;
            let bits = [$($b),*];
            let ncols = popcount(&bits);
            let mut dm = [false; MAXC];
            <$R as Cols>::dmask(&bits, &mut dm, 0);

            let identifier = ident::<$R>(bits_to_bytes(&bits));
            let other = ident::<$R>(bits_to_bytes(&bits));
            // SAFETY: both buffers outlive the allocator below (dropped in reverse order).
            let (arch_ref, other_ref) = unsafe { (identifier.as_ref(), other.as_ref()) };
            let (mut a, ids, free) = any_linked::<$R, S, F, N>(arch_ref, other_ref);
            let mut arch = any_archetype::<$R>(identifier, &bits, N, $CAP, &ids);
            let before = snap::<$R, N>(&arch, &bits);
            let alloc_before = snap_alloc::<$R, S>(&a);
            vassert!(link_ok(&arch, &a) && alloc_inv(&a), "pre-state satisfies LinkInv (harness bug)");

            let target: usize = kani::any();
            kani::assume(target < N);
            let target_id = ids[target];
            let probe = entity::Identifier::new(kani::any(), kani::any());
            let probe_before = a.get(probe);

            // SAFETY: LinkInv holds and `target` is a valid row.
            unsafe {
                arch.remove_row_unchecked(target, &mut a);
                a.free_unchecked(target_id);
            }

            // effect on storage: swap-remove against the array model
            vassert!(arch_shape_ok(&arch, &bits, N - 1), "ArchInv shape after remove");
            let after = snap::<$R, N>(&arch, &bits);
            let mut r = 0;
            while r + 1 < N {
                let src = if r == target { N - 1 } else { r };
                vassert!(rows_eq(&after.rows[r], &before.rows[src], ncols), "surviving rows keep their own values");
                vassert!(after.ids[r] == before.ids[src], "surviving rows keep their own identifier");
                r += 1;
            }
            // index <-> storage
            vassert!(link_ok(&arch, &a), "LinkInv after remove");
            vassert!(alloc_inv(&a), "AllocInv after remove");
            vassert!(a.free.len() == F + 1 && a.free[F] == target_id.index, "released slot queued for reuse");
            vassert!(
                slots_pointing_at(&a, arch_ref.verif_pointer()) == N - 1,
                "exactly the stored rows are reachable"
            );
            vassert!(a.get(target_id).is_none() && !a.is_active(target_id), "removed identifier is dead");
            // frame on the allocator
            let mut i = 0;
            while i < S {
                let s = snap_slot(&a.slots[i]);
                vassert!(s.generation == alloc_before[i].generation, "generations untouched by removal");
                if i != target_id.index && i != ids[N - 1].index {
                    vassert!(
                        s.active == alloc_before[i].active
                            && s.loc_ptr == alloc_before[i].loc_ptr
                            && s.loc_index == alloc_before[i].loc_index,
                        "frame: unrelated slots untouched"
                    );
                }
                i += 1;
            }
            // probe
            let probe_after = a.get(probe);
            if probe == target_id {
                vassert!(probe_after.is_none(), "target dead");
            } else if let Some(l0) = probe_before {
                match probe_after {
                    Some(l1) => {
                        vassert!(
                            l1.identifier.verif_pointer() == l0.identifier.verif_pointer(),
                            "live identifier stays in its archetype"
                        );
                        if probe == ids[N - 1] {
                            vassert!(l1.index == target, "moved entity's location follows the move");
                        } else {
                            vassert!(l1.index == l0.index, "unmoved entity keeps its row");
                        }
                    }
                    None => vassert!(false, "another live identifier stopped resolving"),
                }
            } else {
                vassert!(probe_after.is_none(), "dead identifiers stay dead");
            }
            // ledger: the removed row's values dropped exactly once, nothing else yet
            let mut gone = [false; N];
            gone[target] = true;
            vassert!(ledger_rows(&before, &dm, ncols, &gone), "exactly the removed row's values were dropped");
            kani::cover!(target + 1 < N || N == 1, "a row was moved into the hole");
            kani::cover!(target + 1 == N, "last row removed");
            kani::cover!(probe_before.is_some() && probe != target_id || S - F < 2, "another live probe");
            drop(arch);
            vassert!(ledger_all_once(), "every value dropped exactly once after dropping the archetype");
            kani::cover!(true, "reached end");
        }
    };
}

remove_step!(rm_q_ab_n2, RAB, [true, true], n = 2, cap = 2, s = 3, f = 1);
remove_step!(rm_q_azd_n3, RAZD, [true, true, true], n = 3, cap = 4, s = 3, f = 0);
remove_step!(rm_t_dbwa_n3, RDBWA, [true, true, true, true], n = 3, cap = 3, s = 4, f = 1);
remove_step!(rm_t_dbwa_sparse_n2, RDBWA, [true, false, true, false], n = 2, cap = 2, s = 3, f = 1);
remove_step!(rm_t_ab_n1, RAB, [false, true], n = 1, cap = 1, s = 2, f = 1);
remove_step!(rm_t_empty_n2, RAB, [false, false], n = 2, cap = 2, s = 2, f = 0);

// ------------------------------------------------------------------------------------------
// World::insert (archetype half) = Archetype::push(entity, allocator)
// ------------------------------------------------------------------------------------------

macro_rules! push_step {
    ($name:ident, $R:ty, [$($b:expr),*], entity = ($($C:ty),*), n = $N:expr, cap = $CAP:expr, s = $S:expr, f = $F:expr) => {
        #[kani::proof]
        #[kani::unwind(18)]
        pub fn $name() {
            const N: usize = $N;
            const N1: usize = $N + 1;
            const S: usize = $S;
            const F: usize = $F;
            let bits = [$($b),*];
            let ncols = popcount(&bits);
            let identifier = ident::<$R>(bits_to_bytes(&bits));
            let other = ident::<$R>(bits_to_bytes(&bits));
            // SAFETY: both buffers outlive the allocator below.
            let (arch_ref, other_ref) = unsafe { (identifier.as_ref(), other.as_ref()) };
            let (mut a, ids, free) = any_linked::<$R, S, F, N>(arch_ref, other_ref);
            let mut arch = any_archetype::<$R>(identifier, &bits, N, $CAP, &ids);
            let before = snap::<$R, N1>(&arch, &bits);
            let alloc_before = snap_alloc::<$R, S>(&a);

            let mut efp = [0u64; MAXC];
            let mut k = 0;
            let entity = crate::entity!($({
                let c = <$C as Cell>::any_cell();
                efp[k] = c.fp();
                k += 1;
                c
            }),*);
            vassert!(k == ncols, "entity shape matches archetype (harness bug)");

            // SAFETY: the entity's components are exactly the archetype's, in registry order.
            let id = unsafe { arch.push(entity, &mut a) };

            vassert!(arch_shape_ok(&arch, &bits, N + 1), "ArchInv shape after push");
            let after = snap::<$R, N1>(&arch, &bits);
            let mut r = 0;
            while r < N {
                vassert!(rows_eq(&after.rows[r], &before.rows[r], ncols), "existing rows untouched by push");
                vassert!(after.ids[r] == before.ids[r], "existing identifiers untouched by push");
                r += 1;
            }
            vassert!(rows_eq(&after.rows[N], &efp, ncols), "new row holds the entity's own values, column by column");
            vassert!(after.ids[N] == id, "new row carries the returned identifier");
            if F > 0 {
                vassert!(id.index == free[0], "insert reuses the oldest free slot");
            } else {
                vassert!(id.index == S && id.generation == 0, "insert appends a fresh slot");
            }
            vassert!(link_ok(&arch, &a), "LinkInv after push");
            vassert!(alloc_inv(&a), "AllocInv after push");
            vassert!(slots_pointing_at(&a, arch_ref.verif_pointer()) == N + 1, "exactly the stored rows are reachable");
            let mut i = 0;
            while i < S {
                if i != id.index {
                    let s = snap_slot(&a.slots[i]);
                    vassert!(
                        s.generation == alloc_before[i].generation
                            && s.active == alloc_before[i].active
                            && s.loc_ptr == alloc_before[i].loc_ptr
                            && s.loc_index == alloc_before[i].loc_index,
                        "frame: other entities' slots untouched by push"
                    );
                }
                i += 1;
            }
            let mut i = 0;
            while i < LEDGER_SIZE {
                vassert!(ledger(i as u8) == 0, "push drops nothing");
                i += 1;
            }
            drop(arch);
            vassert!(ledger_all_once(), "every value dropped exactly once after dropping the archetype");
            kani::cover!(true, "reached end");
        }
    };
}

// cap == n: every column must grow (reallocation path); cap > n: in-place.
push_step!(push_q_ab_n1_grow, RAB, [true, true], entity = (A, B), n = 1, cap = 1, s = 2, f = 1);
push_step!(push_q_azd_n2, RAZD, [true, true, true], entity = (A, Z, D), n = 2, cap = 3, s = 2, f = 0);
push_step!(push_t_dbwa_n2_grow, RDBWA, [true, true, true, true], entity = (D, B, W, A), n = 2, cap = 2, s = 3, f = 1);
push_step!(push_t_dbwa_sparse_n0, RDBWA, [false, true, true, false], entity = (B, W), n = 0, cap = 0, s = 1, f = 1);
push_step!(push_t_empty_n1, RAB, [false, false], entity = (), n = 1, cap = 1, s = 1, f = 0);
push_step!(push_t_b_n2, RAB, [false, true], entity = (B), n = 2, cap = 4, s = 3, f = 1);

// ------------------------------------------------------------------------------------------
// World::extend (archetype half) = Archetype::extend(batch, allocator)
// ------------------------------------------------------------------------------------------

fn any_vec<C: Cell>(k: usize, fps: &mut [[u64; MAXC]; 3], col: usize) -> Vec<C> {
    let mut v = Vec::with_capacity(k);
    let mut i = 0;
    while i < k {
        let c = C::any_cell();
        fps[i][col] = c.fp();
        v.push(c);
        i += 1;
    }
    v
}

macro_rules! batch_cols {
    ($k:expr, $fps:ident, $col:expr;) => { crate::entities::Null };
    ($k:expr, $fps:ident, $col:expr; $C:ty $(, $Cs:ty)*) => {
        (any_vec::<$C>($k, &mut $fps, $col), batch_cols!($k, $fps, $col + 1; $($Cs),*))
    };
}

macro_rules! extend_step {
    ($name:ident, $R:ty, [$($b:expr),*], entity = ($($C:ty),*), n = $N:expr, cap = $CAP:expr, k = $K:expr, s = $S:expr, f = $F:expr) => {
        #[kani::proof]
        #[kani::unwind(18)]
        pub fn $name() {
            const N: usize = $N;
            const K: usize = $K;
            const NK: usize = $N + $K;
            const S: usize = $S;
            const F: usize = $F;
            const REUSED: usize = if F < K { F } else { K };
            let bits = [$($b),*];
            let ncols = popcount(&bits);
            let identifier = ident::<$R>(bits_to_bytes(&bits));
            let other = ident::<$R>(bits_to_bytes(&bits));
            // SAFETY: both buffers outlive the allocator below.
            let (arch_ref, other_ref) = unsafe { (identifier.as_ref(), other.as_ref()) };
            let (mut a, ids, free) = any_linked::<$R, S, F, N>(arch_ref, other_ref);
            let mut arch = any_archetype::<$R>(identifier, &bits, N, $CAP, &ids);
            let before = snap::<$R, NK>(&arch, &bits);
            let alloc_before = snap_alloc::<$R, S>(&a);

            let mut fps = [[0u64; MAXC]; 3];
            let cols = batch_cols!(K, fps, 0; $($C),*);
            // SAFETY: all columns have length K.
            let batch = unsafe { crate::entities::Batch::new_unchecked(cols) };

            // SAFETY: the batch's columns are exactly the archetype's, in registry order.
            let new_ids = unsafe { arch.extend(batch, &mut a) };

            vassert!(new_ids.len() == K, "one identifier per batch row");
            vassert!(arch_shape_ok(&arch, &bits, N + K), "ArchInv shape after extend");
            let after = snap::<$R, NK>(&arch, &bits);
            let mut r = 0;
            while r < N {
                vassert!(rows_eq(&after.rows[r], &before.rows[r], ncols), "existing rows untouched by extend");
                vassert!(after.ids[r] == before.ids[r], "existing identifiers untouched by extend");
                r += 1;
            }
            let mut j = 0;
            while j < K {
                vassert!(rows_eq(&after.rows[N + j], &fps[j], ncols), "j-th new row holds the j-th batch row");
                vassert!(after.ids[N + j] == new_ids[j], "j-th returned identifier labels the j-th new row");
                if j < REUSED {
                    vassert!(new_ids[j].index == free[j], "batch reuses free slots in free-list order");
                } else {
                    vassert!(new_ids[j].index == S + (j - REUSED) && new_ids[j].generation == 0, "then appends fresh slots");
                }
                j += 1;
            }
            vassert!(link_ok(&arch, &a), "LinkInv after extend");
            vassert!(alloc_inv(&a), "AllocInv after extend");
            vassert!(a.free.len() == F - REUSED, "no free slot lost or duplicated");
            vassert!(slots_pointing_at(&a, arch_ref.verif_pointer()) == N + K, "exactly the stored rows are reachable");
            let mut i = 0;
            while i < S {
                let mut touched = false;
                let mut j = 0;
                while j < K {
                    if new_ids[j].index == i {
                        touched = true;
                    }
                    j += 1;
                }
                if !touched {
                    let s = snap_slot(&a.slots[i]);
                    vassert!(
                        s.generation == alloc_before[i].generation
                            && s.active == alloc_before[i].active
                            && s.loc_ptr == alloc_before[i].loc_ptr
                            && s.loc_index == alloc_before[i].loc_index,
                        "frame: other entities' slots untouched by extend"
                    );
                }
                i += 1;
            }
            let mut i = 0;
            while i < LEDGER_SIZE {
                vassert!(ledger(i as u8) == 0, "extend drops nothing");
                i += 1;
            }
            drop(arch);
            vassert!(ledger_all_once(), "every value dropped exactly once after dropping the archetype");
            kani::cover!(true, "reached end");
        }
    };
}

// n = 0, cap = 0: the archetype adopts the caller's Vecs; otherwise it appends.
extend_step!(ext_q_ab_adopt_k2, RAB, [true, true], entity = (A, B), n = 0, cap = 0, k = 2, s = 1, f = 1);
extend_step!(ext_q_azd_n1_k2, RAZD, [true, true, true], entity = (A, Z, D), n = 1, cap = 1, k = 2, s = 3, f = 2);
extend_step!(ext_t_ab_n2_k0, RAB, [true, true], entity = (A, B), n = 2, cap = 2, k = 0, s = 3, f = 1);
extend_step!(ext_t_ab_adopt_k0, RAB, [true, true], entity = (A, B), n = 0, cap = 0, k = 0, s = 1, f = 1);
extend_step!(ext_t_dbwa_n1_k2, RDBWA, [true, true, true, true], entity = (D, B, W, A), n = 1, cap = 2, k = 2, s = 2, f = 1);
extend_step!(ext_t_azd_adopt_k3, RAZD, [false, true, true], entity = (Z, D), n = 0, cap = 0, k = 3, s = 2, f = 2);
extend_step!(ext_t_ab_n0_cap2_k1, RAB, [true, false], entity = (A), n = 0, cap = 2, k = 1, s = 0, f = 0);
