// One-step inductive harnesses over `Archetype<R>` composed with the allocator
// (C01 effect+frame, C02 stability/death, C04 ledger, C05 memory model, C13 LinkInv).

use super::{
    arch::*,
    common::*,
};
use crate::{
    archetype,
    archetype::Archetype,
    entity,
    entity::allocator::{
        Allocator,
        Location,
    },
};
use alloc::{
    vec,
    vec::Vec,
};

/// Ledger oracle: D cells of `rows` listed in `gone` were dropped exactly once, all others not yet.
fn ledger_rows<const N: usize>(before: &Snap<N>, dm: &[bool; MAXC], ncols: usize, gone: &[bool; N]) -> bool {
    let mut ok = true;
    let mut k = 0;
    while k < MAXC {
        if k < ncols && dm[k] {
            let mut r = 0;
            while r < N {
                if r < before.n {
                    let want = if gone[r] { 1 } else { 0 };
                    if ledger(d_id_of_fp(before.rows[r][k])) != want {
                        ok = false;
                    }
                }
                r += 1;
            }
        }
        k += 1;
    }
    ok
}

fn ledger_all_once() -> bool {
    let mut ok = true;
    let mut i = 0;
    while i < LEDGER_SIZE {
        if (i as u8) < minted() {
            if ledger(i as u8) != 1 {
                ok = false;
            }
        } else if ledger(i as u8) != 0 {
            ok = false;
        }
        i += 1;
    }
    ok
}

// ------------------------------------------------------------------------------------------
// World::remove = remove_row_unchecked(row) ; free_unchecked(id)
// ------------------------------------------------------------------------------------------

macro_rules! remove_step {
    ($name:ident, $R:ty, [$($b:expr),*], n = $N:expr, cap = $CAP:expr, s = $S:expr, f = $F:expr) => {
        #[kani::proof]
        #[kani::unwind(18)] // LEDGER_SIZE + 2
        pub fn $name() {
            const N: usize = $N;
            const S: usize = $S;
            const F: usize = $F;
            let bits = [$($b),*];
            let ncols = popcount(&bits);
            let mut dm = [false; MAXC];
            <$R as Cols>::dmask(&bits, &mut dm, 0);

            let identifier = ident::<$R>(bits_to_bytes(&bits));
            let other = ident::<$R>(bits_to_bytes(&bits));
            // SAFETY: both buffers outlive the allocator below (dropped in reverse order).
            let (arch_ref, other_ref) = unsafe { (identifier.as_ref(), other.as_ref()) };
            let (mut a, ids, free) = any_linked::<$R, S, F, N>(arch_ref, other_ref);
            let mut arch = any_archetype::<$R>(identifier, &bits, N, $CAP, &ids);
            let before = snap::<$R, N>(&arch, &bits);
            let alloc_before = snap_alloc::<$R, S>(&a);
            vassert!(link_ok(&arch, &a) && alloc_inv(&a), "pre-state satisfies LinkInv (harness bug)");

            let target: usize = kani::any();
            kani::assume(target < N);
            let target_id = ids[target];
            let probe = entity::Identifier::new(kani::any(), kani::any());
            let probe_before = a.get(probe);

            // SAFETY: LinkInv holds and `target` is a valid row.
            unsafe {
                arch.remove_row_unchecked(target, &mut a);
                a.free_unchecked(target_id);
            }

            // effect on storage: swap-remove against the array model
            vassert!(arch_shape_ok(&arch, &bits, N - 1), "ArchInv shape after remove");
            let after = snap::<$R, N>(&arch, &bits);
            let mut r = 0;
            while r + 1 < N {
                let src = if r == target { N - 1 } else { r };
                vassert!(rows_eq(&after.rows[r], &before.rows[src], ncols), "surviving rows keep their own values");
                vassert!(after.ids[r] == before.ids[src], "surviving rows keep their own identifier");
                r += 1;
            }
            // index <-> storage
            vassert!(link_ok(&arch, &a), "LinkInv after remove");
            vassert!(alloc_inv(&a), "AllocInv after remove");
            vassert!(a.free.len() == F + 1 && a.free[F] == target_id.index, "released slot queued for reuse");
            vassert!(
                slots_pointing_at(&a, arch_ref.verif_pointer()) == N - 1,
                "exactly the stored rows are reachable"
            );
            vassert!(a.get(target_id).is_none() && !a.is_active(target_id), "removed identifier is dead");
            // frame on the allocator
            let mut i = 0;
            while i < S {
                let s = snap_slot(&a.slots[i]);
                vassert!(s.generation == alloc_before[i].generation, "generations untouched by removal");
                if i != target_id.index && i != ids[N - 1].index {
                    vassert!(
                        s.active == alloc_before[i].active
                            && s.loc_ptr == alloc_before[i].loc_ptr
                            && s.loc_index == alloc_before[i].loc_index,
                        "frame: unrelated slots untouched"
                    );
                }
                i += 1;
            }
            // probe
            let probe_after = a.get(probe);
            if probe == target_id {
                vassert!(probe_after.is_none(), "target dead");
            } else if let Some(l0) = probe_before {
                match probe_after {
                    Some(l1) => {
                        vassert!(
                            l1.identifier.verif_pointer() == l0.identifier.verif_pointer(),
                            "live identifier stays in its archetype"
                        );
                        if probe == ids[N - 1] {
                            vassert!(l1.index == target, "moved entity's location follows the move");
                        } else {
                            vassert!(l1.index == l0.index, "unmoved entity keeps its row");
                        }
                    }
                    None => vassert!(false, "another live identifier stopped resolving"),
                }
            } else {
                vassert!(probe_after.is_none(), "dead identifiers stay dead");
            }
            // ledger: the removed row's values dropped exactly once, nothing else yet
            let mut gone = [false; N];
            gone[target] = true;
            vassert!(ledger_rows(&before, &dm, ncols, &gone), "exactly the removed row's values were dropped");
            kani::cover!(target + 1 < N || N == 1, "a row was moved into the hole");
            kani::cover!(target + 1 == N, "last row removed");
            kani::cover!(probe_before.is_some() && probe != target_id || S - F < 2, "another live probe");
            drop(arch);
            vassert!(ledger_all_once(), "every value dropped exactly once after dropping the archetype");
            kani::cover!(true, "reached end");
        }
    };
}

remove_step!(rm_q_ab_n2, RAB, [true, true], n = 2, cap = 2, s = 3, f = 1);
remove_step!(rm_q_azd_n3, RAZD, [true, true, true], n = 3, cap = 4, s = 3, f = 0);
remove_step!(rm_t_dbwa_n3, RDBWA, [true, true, true, true], n = 3, cap = 3, s = 4, f = 1);
remove_step!(rm_t_dbwa_sparse_n2, RDBWA, [true, false, true, false], n = 2, cap = 2, s = 3, f = 1);
remove_step!(rm_t_ab_n1, RAB, [false, true], n = 1, cap = 1, s = 2, f = 1);
remove_step!(rm_t_empty_n2, RAB, [false, false], n = 2, cap = 2, s = 2, f = 0);

// ------------------------------------------------------------------------------------------
// World::insert (archetype half) = Archetype::push(entity, allocator)
// ------------------------------------------------------------------------------------------

macro_rules! push_step {
    ($name:ident, $R:ty, [$($b:expr),*], entity = ($($C:ty),*), n = $N:expr, cap = $CAP:expr, s = $S:expr, f = $F:expr) => {
        #[kani::proof]
        #[kani::unwind(18)]
        pub fn $name() {
            const N: usize = $N;
            const N1: usize = $N + 1;
            const S: usize = $S;
            const F: usize = $F;
            let bits = [$($b),*];
            let ncols = popcount(&bits);
            let identifier = ident::<$R>(bits_to_bytes(&bits));
            let other = ident::<$R>(bits_to_bytes(&bits));
            // SAFETY: both buffers outlive the allocator below.
            let (arch_ref, other_ref) = unsafe { (identifier.as_ref(), other.as_ref()) };
            let (mut a, ids, free) = any_linked::<$R, S, F, N>(arch_ref, other_ref);
            let mut arch = any_archetype::<$R>(identifier, &bits, N, $CAP, &ids);
            let before = snap::<$R, N1>(&arch, &bits);
            let alloc_before = snap_alloc::<$R, S>(&a);

            let mut efp = [0u64; MAXC];
            let mut k = 0;
            let entity = crate::entity!($({
                let c = <$C as Cell>::any_cell();
                efp[k] = c.fp();
                k += 1;
                c
            }),*);
            vassert!(k == ncols, "entity shape matches archetype (harness bug)");

            // SAFETY: the entity's components are exactly the archetype's, in registry order.
            let id = unsafe { arch.push(entity, &mut a) };

            vassert!(arch_shape_ok(&arch, &bits, N + 1), "ArchInv shape after push");
            let after = snap::<$R, N1>(&arch, &bits);
            let mut r = 0;
            while r < N {
                vassert!(rows_eq(&after.rows[r], &before.rows[r], ncols), "existing rows untouched by push");
                vassert!(after.ids[r] == before.ids[r], "existing identifiers untouched by push");
                r += 1;
            }
            vassert!(rows_eq(&after.rows[N], &efp, ncols), "new row holds the entity's own values, column by column");
            vassert!(after.ids[N] == id, "new row carries the returned identifier");
            if F > 0 {
                vassert!(id.index == free[0], "insert reuses the oldest free slot");
            } else {
                vassert!(id.index == S && id.generation == 0, "insert appends a fresh slot");
            }
            vassert!(link_ok(&arch, &a), "LinkInv after push");
            vassert!(alloc_inv(&a), "AllocInv after push");
            vassert!(slots_pointing_at(&a, arch_ref.verif_pointer()) == N + 1, "exactly the stored rows are reachable");
            let mut i = 0;
            while i < S {
                if i != id.index {
                    let s = snap_slot(&a.slots[i]);
                    vassert!(
                        s.generation == alloc_before[i].generation
                            && s.active == alloc_before[i].active
                            && s.loc_ptr == alloc_before[i].loc_ptr
                            && s.loc_index == alloc_before[i].loc_index,
                        "frame: other entities' slots untouched by push"
                    );
                }
                i += 1;
            }
            let mut i = 0;
            while i < LEDGER_SIZE {
                vassert!(ledger(i as u8) == 0, "push drops nothing");
                i += 1;
            }
            drop(arch);
            vassert!(ledger_all_once(), "every value dropped exactly once after dropping the archetype");
            kani::cover!(true, "reached end");
        }
    };
}

// cap == n: every column must grow (reallocation path); cap > n: in-place.
push_step!(push_q_ab_n1_grow, RAB, [true, true], entity = (A, B), n = 1, cap = 1, s = 2, f = 1);
push_step!(push_q_azd_n2, RAZD, [true, true, true], entity = (A, Z, D), n = 2, cap = 3, s = 2, f = 0);
push_step!(push_t_dbwa_n2_grow, RDBWA, [true, true, true, true], entity = (D, B, W, A), n = 2, cap = 2, s = 3, f = 1);
push_step!(push_t_dbwa_sparse_n0, RDBWA, [false, true, true, false], entity = (B, W), n = 0, cap = 0, s = 1, f = 1);
push_step!(push_t_empty_n1, RAB, [false, false], entity = (), n = 1, cap = 1, s = 1, f = 0);
push_step!(push_t_b_n2, RAB, [false, true], entity = (B), n = 2, cap = 4, s = 3, f = 1);

// ------------------------------------------------------------------------------------------
// World::extend (archetype half) = Archetype::extend(batch, allocator)
// ------------------------------------------------------------------------------------------

fn any_vec<C: Cell>(k: usize, fps: &mut [[u64; MAXC]; 3], col: usize) -> Vec<C> {
    // spare capacity: a caller's Vec need not be exactly full (len != capacity matters when the
    // archetype adopts the allocation)
    let mut v = Vec::with_capacity(k + 1);
    let mut i = 0;
    while i < k {
        let c = C::any_cell();
        fps[i][col] = c.fp();
        v.push(c);
        i += 1;
    }
    v
}

macro_rules! batch_cols {
    ($k:expr, $fps:ident, $col:expr;) => { crate::entities::Null };
    ($k:expr, $fps:ident, $col:expr; $C:ty $(, $Cs:ty)*) => {
        (any_vec::<$C>($k, &mut $fps, $col), batch_cols!($k, $fps, $col + 1; $($Cs),*))
    };
}

macro_rules! extend_step {
    ($name:ident, $R:ty, [$($b:expr),*], entity = ($($C:ty),*), n = $N:expr, cap = $CAP:expr, k = $K:expr, s = $S:expr, f = $F:expr) => {
        #[kani::proof]
        #[kani::unwind(18)]
        pub fn $name() {
            const N: usize = $N;
            const K: usize = $K;
            const NK: usize = $N + $K;
            const S: usize = $S;
            const F: usize = $F;
            const REUSED: usize = if F < K { F } else { K };
            let bits = [$($b),*];
            let ncols = popcount(&bits);
            let identifier = ident::<$R>(bits_to_bytes(&bits));
            let other = ident::<$R>(bits_to_bytes(&bits));
            // SAFETY: both buffers outlive the allocator below.
            let (arch_ref, other_ref) = unsafe { (identifier.as_ref(), other.as_ref()) };
            let (mut a, ids, free) = any_linked::<$R, S, F, N>(arch_ref, other_ref);
            let mut arch = any_archetype::<$R>(identifier, &bits, N, $CAP, &ids);
            let before = snap::<$R, NK>(&arch, &bits);
            let alloc_before = snap_alloc::<$R, S>(&a);

            let mut fps = [[0u64; MAXC]; 3];
            let cols = batch_cols!(K, fps, 0; $($C),*);
            // SAFETY: all columns have length K.
            let batch = unsafe { crate::entities::Batch::new_unchecked(cols) };

            // SAFETY: the batch's columns are exactly the archetype's, in registry order.
            let new_ids = unsafe { arch.extend(batch, &mut a) };

            vassert!(new_ids.len() == K, "one identifier per batch row");
            vassert!(arch_shape_ok(&arch, &bits, N + K), "ArchInv shape after extend");
            let after = snap::<$R, NK>(&arch, &bits);
            let mut r = 0;
            while r < N {
                vassert!(rows_eq(&after.rows[r], &before.rows[r], ncols), "existing rows untouched by extend");
                vassert!(after.ids[r] == before.ids[r], "existing identifiers untouched by extend");
                r += 1;
            }
            let mut j = 0;
            while j < K {
                vassert!(rows_eq(&after.rows[N + j], &fps[j], ncols), "j-th new row holds the j-th batch row");
                vassert!(after.ids[N + j] == new_ids[j], "j-th returned identifier labels the j-th new row");
                if j < REUSED {
                    vassert!(new_ids[j].index == free[j], "batch reuses free slots in free-list order");
                } else {
                    vassert!(new_ids[j].index == S + (j - REUSED) && new_ids[j].generation == 0, "then appends fresh slots");
                }
                j += 1;
            }
            vassert!(link_ok(&arch, &a), "LinkInv after extend");
            vassert!(alloc_inv(&a), "AllocInv after extend");
            vassert!(a.free.len() == F - REUSED, "no free slot lost or duplicated");
            vassert!(slots_pointing_at(&a, arch_ref.verif_pointer()) == N + K, "exactly the stored rows are reachable");
            let mut i = 0;
            while i < S {
                let mut touched = false;
                let mut j = 0;
                while j < K {
                    if new_ids[j].index == i {
                        touched = true;
                    }
                    j += 1;
                }
                if !touched {
                    let s = snap_slot(&a.slots[i]);
                    vassert!(
                        s.generation == alloc_before[i].generation
                            && s.active == alloc_before[i].active
                            && s.loc_ptr == alloc_before[i].loc_ptr
                            && s.loc_index == alloc_before[i].loc_index,
                        "frame: other entities' slots untouched by extend"
                    );
                }
                i += 1;
            }
            let mut i = 0;
            while i < LEDGER_SIZE {
                vassert!(ledger(i as u8) == 0, "extend drops nothing");
                i += 1;
            }
            drop(arch);
            vassert!(ledger_all_once(), "every value dropped exactly once after dropping the archetype");
            kani::cover!(true, "reached end");
        }
    };
}

// n = 0, cap = 0: the archetype adopts the caller's Vecs; otherwise it appends.
extend_step!(ext_q_ab_adopt_k2, RAB, [true, true], entity = (A, B), n = 0, cap = 0, k = 2, s = 1, f = 1);
extend_step!(ext_q_azd_n1_k2, RAZD, [true, true, true], entity = (A, Z, D), n = 1, cap = 1, k = 2, s = 3, f = 2);
extend_step!(ext_t_ab_n2_k0, RAB, [true, true], entity = (A, B), n = 2, cap = 2, k = 0, s = 3, f = 1);
extend_step!(ext_t_ab_adopt_k0, RAB, [true, true], entity = (A, B), n = 0, cap = 0, k = 0, s = 1, f = 1);
extend_step!(ext_t_dbwa_n1_k2, RDBWA, [true, true, true, true], entity = (D, B, W, A), n = 1, cap = 2, k = 2, s = 2, f = 1);
extend_step!(ext_t_azd_adopt_k3, RAZD, [false, true, true], entity = (Z, D), n = 0, cap = 0, k = 3, s = 2, f = 2);
extend_step!(ext_t_ab_n0_cap2_k1, RAB, [true, false], entity = (A), n = 0, cap = 2, k = 1, s = 0, f = 0);

// ------------------------------------------------------------------------------------------
// Entry::add / Entry::remove at archetype level:
//   pop_row_unchecked(row) -> packed bytes -> push_from_buffer_{and,skipping}_component into a
//   second archetype -> modify_location_unchecked.
// `src` has SRC bits, `dst` has DST bits; they differ in exactly the component X.
// ------------------------------------------------------------------------------------------

macro_rules! shape_step {
    ($name:ident, $R:ty, src = [$($sb:expr),*], dst = [$($db:expr),*], $mode:ident $X:ty,
     n1 = $N1:expr, n2 = $N2:expr, cap2 = $CAP2:expr, s = $S:expr, f = $F:expr) => {
        #[kani::proof]
        #[kani::unwind(18)]
        pub fn $name() {
            const N1: usize = $N1;
            const N2: usize = $N2;
            const N2P: usize = $N2 + 1;
            const S: usize = $S;
            const F: usize = $F;
            let sbits = [$($sb),*];
            let dbits = [$($db),*];
            let scols = popcount(&sbits);
            let dcols = popcount(&dbits);
            let mut sdm = [false; MAXC];
            <$R as Cols>::dmask(&sbits, &mut sdm, 0);
            // which registry position differs, and the present-column index of X on the side that has it
            let mut xpos = usize::MAX;
            let mut i = 0;
            while i < sbits.len() {
                if sbits[i] != dbits[i] {
                    vassert!(xpos == usize::MAX, "shapes differ in exactly one component (harness bug)");
                    xpos = i;
                }
                i += 1;
            }
            let xcol_src = popcount(&sbits[..xpos]);
            let xcol_dst = popcount(&dbits[..xpos]);

            let src_ident = ident::<$R>(bits_to_bytes(&sbits));
            let dst_ident = ident::<$R>(bits_to_bytes(&dbits));
            let other = ident::<$R>(bits_to_bytes(&sbits));
            // SAFETY: the buffers outlive the allocator below.
            let (src_ref, dst_ref, other_ref) = unsafe { (src_ident.as_ref(), dst_ident.as_ref(), other.as_ref()) };
            let (mut a, ids1, ids2, _free) = any_linked2::<$R, S, F, N1, N2>(src_ref, dst_ref, other_ref);
            let mut src = any_archetype::<$R>(src_ident, &sbits, N1, N1, &ids1);
            let mut dst = any_archetype::<$R>(dst_ident, &dbits, N2, $CAP2, &ids2);
            let sbefore = snap::<$R, N1>(&src, &sbits);
            let dbefore = snap::<$R, N2P>(&dst, &dbits);
            let alloc_before = snap_alloc::<$R, S>(&a);

            let target: usize = kani::any();
            kani::assume(target < N1);
            let target_id = ids1[target];

            // SAFETY: LinkInv holds, `target` is a valid row.
            let (moved_id, bytes) = unsafe { src.pop_row_unchecked(target, &mut a) };
            vassert!(moved_id == target_id, "pop returns the row's own identifier");
            let mut sizes = [0usize; MAXC];
            <$R as Cols>::sizes(&sbits, &mut sizes, 0);
            vassert!(bytes.len() == sizes[0] + sizes[1] + sizes[2] + sizes[3], "packed row is exactly the sum of the component sizes");

            let mut new_fp = 0u64;
            let index = shape_step!(@push $mode $X, dst, moved_id, bytes, new_fp);
            // SAFETY: `moved_id` is live.
            unsafe { a.modify_location_unchecked(moved_id, Location::new(dst_ref, index)) };
            drop(bytes);

            // source: swap-remove
            vassert!(arch_shape_ok(&src, &sbits, N1 - 1), "ArchInv shape of the source after pop");
            let safter = snap::<$R, N1>(&src, &sbits);
            let mut r = 0;
            while r + 1 < N1 {
                let from = if r == target { N1 - 1 } else { r };
                vassert!(rows_eq(&safter.rows[r], &sbefore.rows[from], scols), "source survivors keep their own values");
                vassert!(safter.ids[r] == sbefore.ids[from], "source survivors keep their own identifier");
                r += 1;
            }
            // destination: old rows untouched, new row = carried values (+ new component)
            vassert!(index == N2, "entity lands in the next row of the target archetype");
            vassert!(arch_shape_ok(&dst, &dbits, N2 + 1), "ArchInv shape of the target after push");
            let dafter = snap::<$R, N2P>(&dst, &dbits);
            let mut r = 0;
            while r < N2 {
                vassert!(rows_eq(&dafter.rows[r], &dbefore.rows[r], dcols), "target's existing rows untouched");
                vassert!(dafter.ids[r] == dbefore.ids[r], "target's existing identifiers untouched");
                r += 1;
            }
            vassert!(dafter.ids[N2] == target_id, "moved entity keeps its identifier");
            shape_step!(@carried $mode, sbefore, dafter, target, N2, scols, dcols, xcol_src, xcol_dst, new_fp);

            // index <-> storage
            vassert!(link_ok(&src, &a) && link_ok(&dst, &a), "LinkInv after the shape change");
            vassert!(alloc_inv(&a), "AllocInv after the shape change");
            vassert!(slots_pointing_at(&a, src_ref.verif_pointer()) == N1 - 1, "source rows reachable, nothing more");
            vassert!(slots_pointing_at(&a, dst_ref.verif_pointer()) == N2 + 1, "target rows reachable, nothing more");
            let mut i = 0;
            while i < S {
                let s = snap_slot(&a.slots[i]);
                vassert!(s.generation == alloc_before[i].generation && s.active == alloc_before[i].active, "liveness and generations untouched by a shape change");
                if i != target_id.index && i != ids1[N1 - 1].index {
                    vassert!(
                        s.loc_ptr == alloc_before[i].loc_ptr && s.loc_index == alloc_before[i].loc_index,
                        "frame: other entities' locations untouched"
                    );
                }
                i += 1;
            }
            // ledger
            shape_step!(@ledger $mode, sbefore, sdm, scols, target, xcol_src, N1);
            kani::cover!(target + 1 < N1 || N1 == 1, "a row was moved into the hole");
            drop(src);
            drop(dst);
            vassert!(ledger_all_once(), "every value dropped exactly once after dropping both archetypes");
            kani::cover!(true, "reached end");
        }
    };
    (@push add $X:ty, $dst:ident, $id:ident, $bytes:ident, $fp:ident) => {{
        let c = <$X as Cell>::any_cell();
        $fp = c.fp();
        // SAFETY: `bytes` holds the source row's components packed in registry order.
        unsafe { $dst.push_from_buffer_and_component($id, $bytes.as_ptr(), c) }
    }};
    (@push remove $X:ty, $dst:ident, $id:ident, $bytes:ident, $fp:ident) => {{
        let _ = &$fp;
        // SAFETY: `bytes` holds the source row's components packed in registry order, including X.
        unsafe { $dst.push_from_buffer_skipping_component::<$X>($id, $bytes.as_ptr()) }
    }};
    (@carried add, $sb:ident, $da:ident, $t:ident, $n2:ident, $scols:ident, $dcols:ident, $xs:ident, $xd:ident, $fp:ident) => {
        // dst has one more column at xd
        let mut k = 0;
        while k < MAXC {
            if k < $dcols {
                if k < $xd {
                    vassert!($da.rows[$n2][k] == $sb.rows[$t][k], "carried component value preserved (before X)");
                } else if k == $xd {
                    vassert!($da.rows[$n2][k] == $fp, "added component stored in its own column");
                } else {
                    vassert!($da.rows[$n2][k] == $sb.rows[$t][k - 1], "carried component value preserved (after X)");
                }
            }
            k += 1;
        }
    };
    (@carried remove, $sb:ident, $da:ident, $t:ident, $n2:ident, $scols:ident, $dcols:ident, $xs:ident, $xd:ident, $fp:ident) => {
        let mut k = 0;
        while k < MAXC {
            if k < $dcols {
                if k < $xs {
                    vassert!($da.rows[$n2][k] == $sb.rows[$t][k], "carried component value preserved (before X)");
                } else {
                    vassert!($da.rows[$n2][k] == $sb.rows[$t][k + 1], "carried component value preserved (after X)");
                }
            }
            k += 1;
        }
    };
    (@ledger add, $sb:ident, $dm:ident, $scols:ident, $t:ident, $xs:ident, $n1:ident) => {
        let mut i = 0;
        while i < LEDGER_SIZE {
            vassert!(ledger(i as u8) == 0, "adding a component drops nothing");
            i += 1;
        }
    };
    (@ledger remove, $sb:ident, $dm:ident, $scols:ident, $t:ident, $xs:ident, $n1:ident) => {
        let mut k = 0;
        while k < MAXC {
            if k < $scols && $dm[k] {
                let mut r = 0;
                while r < $n1 {
                    let want = if r == $t && k == $xs { 1 } else { 0 };
                    vassert!(
                        ledger(d_id_of_fp($sb.rows[r][k])) == want,
                        "detached component dropped exactly once at removal"
                    );
                    r += 1;
                }
            }
            k += 1;
        }
    };
}

// add
shape_step!(shape_q_add_b_to_a, RAB, src = [true, false], dst = [true, true], add B, n1 = 3, n2 = 1, cap2 = 1, s = 4, f = 0);
shape_step!(shape_t_add_w_dbwa, RDBWA, src = [true, true, false, true], dst = [true, true, true, true], add W, n1 = 2, n2 = 0, cap2 = 0, s = 2, f = 0);
shape_step!(shape_t_add_d_azd, RAZD, src = [true, true, false], dst = [true, true, true], add D, n1 = 1, n2 = 2, cap2 = 3, s = 3, f = 0);
// a zero-sized component (size 0, align 1) and D (size 2, align 1) sit in the packed buffer before the
// added component's position is reached: a cursor advanced by anything but size_of shows
shape_step!(shape_q_add_a_before_zd, RAZD, src = [false, true, true], dst = [true, true, true], add A, n1 = 2, n2 = 0, cap2 = 0, s = 2, f = 0);
shape_step!(shape_t_add_a_first, RAZD, src = [false, false, true], dst = [true, false, true], add A, n1 = 2, n2 = 1, cap2 = 1, s = 3, f = 0);
// remove
shape_step!(shape_q_rm_d_azd, RAZD, src = [true, true, true], dst = [true, true, false], remove D, n1 = 2, n2 = 1, cap2 = 1, s = 3, f = 0);
shape_step!(shape_t_rm_b_dbwa, RDBWA, src = [true, true, true, true], dst = [true, false, true, true], remove B, n1 = 1, n2 = 0, cap2 = 0, s = 1, f = 0);
shape_step!(shape_t_rm_d_dbwa, RDBWA, src = [true, true, false, true], dst = [false, true, false, true], remove D, n1 = 3, n2 = 1, cap2 = 2, s = 4, f = 0);
shape_step!(shape_t_rm_last_a, RAB, src = [true, false], dst = [false, false], remove A, n1 = 1, n2 = 1, cap2 = 1, s = 2, f = 0);
shape_step!(shape_t_rm_z_azd, RAZD, src = [false, true, true], dst = [false, false, true], remove Z, n1 = 2, n2 = 0, cap2 = 0, s = 2, f = 0);

// ------------------------------------------------------------------------------------------
// Entry::add on a present component = set_component_unchecked (overwrite drops the old value)
// ------------------------------------------------------------------------------------------

macro_rules! set_step {
    ($name:ident, $R:ty, [$($b:expr),*], set $X:ty, n = $N:expr) => {
        #[kani::proof]
        #[kani::unwind(18)]
        pub fn $name() {
            const N: usize = $N;
            let bits = [$($b),*];
            let ncols = popcount(&bits);
            let mut dm = [false; MAXC];
            <$R as Cols>::dmask(&bits, &mut dm, 0);
            let identifier = ident::<$R>(bits_to_bytes(&bits));
            let mut ids = [entity::Identifier::new(0, 0); N];
            let mut r = 0;
            while r < N {
                ids[r] = entity::Identifier::new(kani::any(), kani::any());
                r += 1;
            }
            let mut arch = any_archetype::<$R>(identifier, &bits, N, N, &ids);
            let before = snap::<$R, N>(&arch, &bits);
            let (_, _, cols_before, _) = arch.verif_raw();
            let col0_before = if ncols > 0 { cols_before[0] } else { (core::ptr::null_mut(), 0) };

            let target: usize = kani::any();
            kani::assume(target < N);
            let c = <$X as Cell>::any_cell();
            let new_fp = c.fp();
            // which present column holds X: found independently by probing fingerprints is not
            // possible, so it is derived from the registry position of X.
            let xcol = <$R as XCol<$X>>::xcol(&bits);

            // SAFETY: X's bit is set in `bits`; `target` is a valid row.
            unsafe { arch.set_component_unchecked::<$X, _>(target, c) };

            vassert!(arch_shape_ok(&arch, &bits, N), "ArchInv shape after set");
            let after = snap::<$R, N>(&arch, &bits);
            let mut r = 0;
            while r < N {
                vassert!(after.ids[r] == before.ids[r], "identifiers untouched by set");
                let mut k = 0;
                while k < MAXC {
                    if k < ncols {
                        if r == target && k == xcol {
                            vassert!(after.rows[r][k] == new_fp, "the new value is stored in X's own column of the target row");
                        } else {
                            vassert!(after.rows[r][k] == before.rows[r][k], "every other cell untouched by set");
                        }
                    }
                    k += 1;
                }
                r += 1;
            }
            if ncols > 0 {
                let (_, _, cols_after, _) = arch.verif_raw();
                vassert!(cols_after[0] == col0_before, "set never reallocates");
            }
            // ledger: exactly the overwritten value (if X is the ledger component) dropped, once
            let mut k = 0;
            while k < MAXC {
                if k < ncols && dm[k] {
                    let mut r = 0;
                    while r < N {
                        let want = if r == target && k == xcol { 1 } else { 0 };
                        vassert!(ledger(d_id_of_fp(before.rows[r][k])) == want, "overwritten value dropped exactly once, nothing else");
                        r += 1;
                    }
                }
                k += 1;
            }
            drop(arch);
            vassert!(ledger_all_once(), "every value dropped exactly once after dropping the archetype");
            kani::cover!(true, "reached end");
        }
    };
}

/// Present-column index of component `X` in registry `Self` under `bits` (reference computation:
/// number of set bits before X's registry position).
pub trait XCol<X> {
    fn xcol(bits: &[bool]) -> usize;
}
macro_rules! xcol_impl {
    ($R:ty; $($X:ty => $pos:expr),*) => {
        $(impl XCol<$X> for $R {
            fn xcol(bits: &[bool]) -> usize {
                popcount(&bits[..$pos])
            }
        })*
    };
}
xcol_impl!(RAB; A => 0, B => 1);
xcol_impl!(RAZD; A => 0, Z => 1, D => 2);
xcol_impl!(RDBWA; D => 0, B => 1, W => 2, A => 3);

set_step!(set_q_d_azd, RAZD, [true, true, true], set D, n = 2);
set_step!(set_q_b_ab, RAB, [false, true], set B, n = 2);
set_step!(set_t_a_dbwa, RDBWA, [true, false, true, true], set A, n = 3);
set_step!(set_t_w_dbwa, RDBWA, [true, true, true, true], set W, n = 2);
set_step!(set_t_d_dbwa, RDBWA, [true, true, false, false], set D, n = 3);
set_step!(set_t_z_azd, RAZD, [true, true, false], set Z, n = 1);

// ------------------------------------------------------------------------------------------
// World::clear (one archetype) = Archetype::clear(allocator); clone_from's clear_detached
// ------------------------------------------------------------------------------------------

macro_rules! clear_step {
    ($name:ident, $R:ty, [$($b:expr),*], entity = ($($C:ty),*), n = $N:expr, s = $S:expr, f = $F:expr, detached = $DET:expr) => {
        #[kani::proof]
        #[kani::unwind(18)]
        pub fn $name() {
            const N: usize = $N;
            const N1: usize = $N + 1;
            const S: usize = $S;
            const F: usize = $F;
            let bits = [$($b),*];
            let ncols = popcount(&bits);
            let mut dm = [false; MAXC];
            <$R as Cols>::dmask(&bits, &mut dm, 0);
            let identifier = ident::<$R>(bits_to_bytes(&bits));
            let other = ident::<$R>(bits_to_bytes(&bits));
            // SAFETY: both buffers outlive the allocator below.
            let (arch_ref, other_ref) = unsafe { (identifier.as_ref(), other.as_ref()) };
            let (mut a, ids, free) = any_linked::<$R, S, F, N>(arch_ref, other_ref);
            let mut arch = any_archetype::<$R>(identifier, &bits, N, N, &ids);
            let before = snap::<$R, N1>(&arch, &bits);
            let alloc_before = snap_alloc::<$R, S>(&a);

            if $DET {
                arch.clear_detached();
                // allocator untouched
                let mut i = 0;
                while i < S {
                    let s = snap_slot(&a.slots[i]);
                    vassert!(
                        s.generation == alloc_before[i].generation
                            && s.active == alloc_before[i].active
                            && s.loc_ptr == alloc_before[i].loc_ptr
                            && s.loc_index == alloc_before[i].loc_index,
                        "clear_detached leaves the allocator alone"
                    );
                    i += 1;
                }
            } else {
                // SAFETY: LinkInv holds.
                unsafe { arch.clear(&mut a) };
                vassert!(a.free.len() == F + N, "every cleared entity's slot is released, none twice");
                let mut j = 0;
                while j < F {
                    vassert!(a.free[j] == free[j], "older free entries keep their order");
                    j += 1;
                }
                let mut r = 0;
                while r < N {
                    vassert!(a.free[F + r] == ids[r].index, "slots released in row order");
                    vassert!(a.get(ids[r]).is_none() && !a.is_active(ids[r]), "cleared identifiers are dead");
                    r += 1;
                }
                vassert!(alloc_inv(&a), "AllocInv after clear");
                vassert!(slots_pointing_at(&a, arch_ref.verif_pointer()) == 0, "nothing points into the cleared archetype");
                let mut i = 0;
                while i < S {
                    let s = snap_slot(&a.slots[i]);
                    vassert!(s.generation == alloc_before[i].generation, "generations untouched by clear");
                    if alloc_before[i].loc_ptr != arch_ref.verif_pointer() {
                        vassert!(
                            s.active == alloc_before[i].active
                                && s.loc_ptr == alloc_before[i].loc_ptr
                                && s.loc_index == alloc_before[i].loc_index,
                            "frame: entities of other archetypes untouched by clear"
                        );
                    }
                    i += 1;
                }
            }
            vassert!(arch_shape_ok(&arch, &bits, 0), "cleared archetype is empty and keeps its columns");
            let mut gone = [true; N1];
            gone[N] = false;
            vassert!(ledger_rows(&before, &dm, ncols, &gone), "every cleared value dropped exactly once");

            // the archetype is still usable: push one more entity
            let mut efp = [0u64; MAXC];
            let mut k = 0;
            let entity = crate::entity!($({
                let c = <$C as Cell>::any_cell();
                efp[k] = c.fp();
                k += 1;
                c
            }),*);
            // SAFETY: the entity's components are exactly the archetype's.
            let id = unsafe { arch.push(entity, &mut a) };
            let after = snap::<$R, N1>(&arch, &bits);
            vassert!(after.n == 1 && rows_eq(&after.rows[0], &efp, ncols) && after.ids[0] == id, "push after clear stores row 0");
            if !$DET {
                vassert!(link_ok(&arch, &a) && alloc_inv(&a), "LinkInv after clear+push");
            }
            drop(arch);
            vassert!(ledger_all_once(), "every value dropped exactly once after dropping the archetype");
            kani::cover!(true, "reached end");
        }
    };
}

clear_step!(clear_q_azd_n2, RAZD, [true, true, true], entity = (A, Z, D), n = 2, s = 3, f = 1, detached = false);
clear_step!(clear_q_azd_n2_detached, RAZD, [true, false, true], entity = (A, D), n = 2, s = 2, f = 0, detached = true);
clear_step!(clear_t_dbwa_n3, RDBWA, [true, true, true, true], entity = (D, B, W, A), n = 3, s = 4, f = 1, detached = false);
clear_step!(clear_t_ab_n0, RAB, [true, true], entity = (A, B), n = 0, s = 1, f = 1, detached = false);
clear_step!(clear_t_empty_n2, RAB, [false, false], entity = (), n = 2, s = 2, f = 0, detached = false);

// ------------------------------------------------------------------------------------------
// Growth / shrink patterns (C05): reserve, shrink_to_fit, then keep using the columns.
// ------------------------------------------------------------------------------------------

macro_rules! grow_shrink_step {
    ($name:ident, $R:ty, [$($b:expr),*], entity = ($($C:ty),*), n = $N:expr, cap = $CAP:expr, additional = $ADD:expr, s = $S:expr, f = $F:expr) => {
        #[kani::proof]
        #[kani::unwind(18)]
        pub fn $name() {
            const N: usize = $N;
            const N1: usize = $N + 1;
            const S: usize = $S;
            const F: usize = $F;
            let bits = [$($b),*];
            let ncols = popcount(&bits);
            let identifier = ident::<$R>(bits_to_bytes(&bits));
            let other = ident::<$R>(bits_to_bytes(&bits));
            // SAFETY: both buffers outlive the allocator below.
            let (arch_ref, other_ref) = unsafe { (identifier.as_ref(), other.as_ref()) };
            let (mut a, ids, _free) = any_linked::<$R, S, F, N>(arch_ref, other_ref);
            let mut arch = any_archetype::<$R>(identifier, &bits, N, $CAP, &ids);
            let before = snap::<$R, N1>(&arch, &bits);

            let shrink_first: bool = kani::any();
            if shrink_first {
                arch.shrink_to_fit();
                // SAFETY: entity type matches the archetype.
                unsafe { arch.reserve::<crate::Entity!($($C),*)>($ADD) };
            } else {
                // SAFETY: entity type matches the archetype.
                unsafe { arch.reserve::<crate::Entity!($($C),*)>($ADD) };
                arch.shrink_to_fit();
            }
            vassert!(arch_shape_ok(&arch, &bits, N), "reserve/shrink keep the row count");
            let mid = snap::<$R, N1>(&arch, &bits);
            let mut r = 0;
            while r < N {
                vassert!(rows_eq(&mid.rows[r], &before.rows[r], ncols) && mid.ids[r] == before.ids[r], "reserve/shrink keep every value");
                r += 1;
            }
            {
                let (_, (_, idcap), cols, _) = arch.verif_raw();
                vassert!(idcap >= N, "identifier column capacity covers its length");
                let mut k = 0;
                while k < MAXC {
                    if k < ncols {
                        vassert!(cols[k].1 >= N, "column capacity covers its length");
                    }
                    k += 1;
                }
            }

            let mut efp = [0u64; MAXC];
            let mut k = 0;
            let entity = crate::entity!($({
                let c = <$C as Cell>::any_cell();
                efp[k] = c.fp();
                k += 1;
                c
            }),*);
            // SAFETY: the entity's components are exactly the archetype's.
            let id = unsafe { arch.push(entity, &mut a) };
            let after = snap::<$R, N1>(&arch, &bits);
            let mut r = 0;
            while r < N {
                vassert!(rows_eq(&after.rows[r], &before.rows[r], ncols) && after.ids[r] == before.ids[r], "push after reserve/shrink keeps every value");
                r += 1;
            }
            vassert!(rows_eq(&after.rows[N], &efp, ncols) && after.ids[N] == id, "push after reserve/shrink stores the new row");
            vassert!(link_ok(&arch, &a) && alloc_inv(&a), "LinkInv after reserve/shrink/push");
            arch.shrink_to_fit();
            drop(arch);
            vassert!(ledger_all_once(), "every value dropped exactly once after dropping the archetype");
            kani::cover!(shrink_first, "shrink then reserve");
            kani::cover!(!shrink_first, "reserve then shrink");
        }
    };
}

// Archetype::len / is_empty count rows, not columns (Archetypes::shrink_to_fit drops the tables for
// which is_empty() holds): every combination of "has columns" and "has rows".
macro_rules! rows_step {
    ($name:ident, $R:ty, [$($b:expr),*], n = $N:expr) => {
        #[kani::proof]
        #[kani::unwind(18)]
        pub fn $name() {
            const N: usize = $N;
            let bits = [$($b),*];
            let identifier = ident::<$R>(bits_to_bytes(&bits));
            let ids = any_ids::<N>();
            let arch = any_archetype::<$R>(identifier, &bits, N, N, &ids);
            vassert!(arch.len() == N, "len() is the number of rows");
            vassert!(arch.is_empty() == (N == 0), "is_empty() is about rows, not about columns");
            kani::cover!(true, "reached end");
            core::mem::forget(arch);
        }
    };
}

rows_step!(rows_q_ab_none_n2, RAB, [false, false], n = 2);
rows_step!(rows_q_ab_both_n0, RAB, [true, true], n = 0);
rows_step!(rows_t_ab_none_n0, RAB, [false, false], n = 0);
rows_step!(rows_t_ab_a_n1, RAB, [true, false], n = 1);

grow_shrink_step!(grow_q_azd_n2, RAZD, [true, true, true], entity = (A, Z, D), n = 2, cap = 4, additional = 1, s = 2, f = 0);
grow_shrink_step!(grow_t_dbwa_n1, RDBWA, [true, true, true, true], entity = (D, B, W, A), n = 1, cap = 1, additional = 2, s = 2, f = 1);
grow_shrink_step!(grow_t_ab_n0, RAB, [true, true], entity = (A, B), n = 0, cap = 0, additional = 0, s = 0, f = 0);
grow_shrink_step!(grow_t_ab_n0_cap3, RAB, [true, false], entity = (A), n = 0, cap = 3, additional = 1, s = 1, f = 1);

// ------------------------------------------------------------------------------------------
// Clone / clone_from at archetype level (C10 exactness + independence, C04 ledger)
// ------------------------------------------------------------------------------------------

/// Row equality by *value*: ledger columns compare the payload only (a clone is a different value
/// with the same payload).
fn rows_eq_val(a: &[u64; MAXC], b: &[u64; MAXC], ncols: usize, dm: &[bool; MAXC]) -> bool {
    let mut eq = true;
    let mut k = 0;
    while k < MAXC {
        if k < ncols {
            let (x, y) = if dm[k] { (a[k] & 0xff, b[k] & 0xff) } else { (a[k], b[k]) };
            if x != y {
                eq = false;
            }
        }
        k += 1;
    }
    eq
}

fn any_ids<const N: usize>() -> [entity::Identifier; N] {
    let mut ids = [entity::Identifier::new(0, 0); N];
    let mut r = 0;
    while r < N {
        ids[r] = entity::Identifier::new(kani::any(), kani::any());
        r += 1;
    }
    ids
}

macro_rules! clone_step {
    ($name:ident, $R:ty, [$($b:expr),*], n = $N:expr, cap = $CAP:expr) => {
        #[kani::proof]
        #[kani::unwind(18)]
        pub fn $name() {
            const N: usize = $N;
            let bits = [$($b),*];
            let ncols = popcount(&bits);
            let mut dm = [false; MAXC];
            <$R as Cols>::dmask(&bits, &mut dm, 0);
            let ids = any_ids::<N>();
            let src = any_archetype::<$R>(ident::<$R>(bits_to_bytes(&bits)), &bits, N, $CAP, &ids);
            let sbefore = snap::<$R, N>(&src, &bits);
            let minted_before = minted();

            let mut cl = src.clone();

            vassert!(arch_shape_ok(&cl, &bits, N), "clone has the source's shape");
            let c = snap::<$R, N>(&cl, &bits);
            let s = snap::<$R, N>(&src, &bits);
            let mut r = 0;
            while r < N {
                vassert!(rows_eq_val(&c.rows[r], &sbefore.rows[r], ncols, &dm), "clone holds the source's values row by row");
                vassert!(c.ids[r] == sbefore.ids[r], "clone holds the source's identifiers row by row");
                vassert!(rows_eq(&s.rows[r], &sbefore.rows[r], ncols), "source untouched by clone()");
                r += 1;
            }
            // identifier bytes equal, buffers distinct
            {
                let (ci, (cidp, _), ccols, _) = cl.verif_raw();
                let (si, (sidp, _), scols, _) = src.verif_raw();
                // SAFETY: both buffers are live.
                vassert!(unsafe { ci.as_slice() == si.as_slice() }, "clone has the same component set");
                vassert!(ci.verif_raw().0 != si.verif_raw().0, "clone owns its identifier buffer");
                if N > 0 {
                    vassert!(cidp != sidp, "clone owns its identifier column");
                    let mut sizes = [0usize; MAXC];
                    <$R as Cols>::sizes(&bits, &mut sizes, 0);
                    let mut k = 0;
                    while k < MAXC {
                        if k < ncols && sizes[k] > 0 {
                            vassert!(ccols[k].0 != scols[k].0, "clone owns its columns");
                        }
                        k += 1;
                    }
                }
            }
            // ledger: nothing dropped, one fresh value per cloned ledger cell
            let mut i = 0;
            while i < LEDGER_SIZE {
                vassert!(ledger(i as u8) == 0, "clone() drops nothing");
                i += 1;
            }
            let mut ndm = 0;
            let mut k = 0;
            while k < MAXC {
                if k < ncols && dm[k] {
                    ndm += 1;
                }
                k += 1;
            }
            vassert!(minted() as usize == minted_before as usize + ndm * N, "one independent value per cloned cell");
            // independence: dropping the clone leaves the source intact and readable
            drop(cl);
            let s2 = snap::<$R, N>(&src, &bits);
            let mut r = 0;
            while r < N {
                vassert!(rows_eq(&s2.rows[r], &sbefore.rows[r], ncols) && s2.ids[r] == sbefore.ids[r], "source intact after the clone is dropped");
                r += 1;
            }
            let mut gone = [false; N];
            let _ = &mut gone;
            vassert!(ledger_rows(&sbefore, &dm, ncols, &gone), "dropping the clone drops none of the source's values");
            drop(src);
            vassert!(ledger_all_once(), "every value (originals and clones) dropped exactly once");
            kani::cover!(true, "reached end");
        }
    };
}

clone_step!(clone_q_azd_n2, RAZD, [true, true, true], n = 2, cap = 3);
clone_step!(clone_t_dbwa_n2, RDBWA, [true, true, true, true], n = 2, cap = 2);
clone_step!(clone_t_ab_n0, RAB, [true, true], n = 0, cap = 0);
clone_step!(clone_t_dbwa_sparse_n3, RDBWA, [true, false, false, true], n = 3, cap = 4);

macro_rules! clone_from_step {
    ($name:ident, $R:ty, [$($b:expr),*], dst = $ND:expr, dcap = $DCAP:expr, src = $NS:expr) => {
        #[kani::proof]
        #[kani::unwind(18)]
        pub fn $name() {
            const ND: usize = $ND;
            const NS: usize = $NS;
            const NM: usize = if ND > NS { ND } else { NS };
            let bits = [$($b),*];
            let ncols = popcount(&bits);
            let mut dm = [false; MAXC];
            <$R as Cols>::dmask(&bits, &mut dm, 0);
            let dids = any_ids::<ND>();
            let sids = any_ids::<NS>();
            let mut dst = any_archetype::<$R>(ident::<$R>(bits_to_bytes(&bits)), &bits, ND, $DCAP, &dids);
            let src = any_archetype::<$R>(ident::<$R>(bits_to_bytes(&bits)), &bits, NS, NS, &sids);
            let dbefore = snap::<$R, NM>(&dst, &bits);
            let sbefore = snap::<$R, NM>(&src, &bits);
            let dst_ident_before = dst.verif_raw().0.verif_raw().0;

            dst.clone_from(&src);

            vassert!(arch_shape_ok(&dst, &bits, NS), "destination takes the source's row count");
            vassert!(dst.verif_raw().0.verif_raw().0 == dst_ident_before, "destination keeps its own identifier buffer");
            let d = snap::<$R, NM>(&dst, &bits);
            let s = snap::<$R, NM>(&src, &bits);
            let mut r = 0;
            while r < NS {
                vassert!(rows_eq_val(&d.rows[r], &sbefore.rows[r], ncols, &dm), "destination holds the source's values row by row");
                vassert!(d.ids[r] == sbefore.ids[r], "destination holds the source's identifiers row by row");
                vassert!(rows_eq(&s.rows[r], &sbefore.rows[r], ncols), "source untouched by clone_from()");
                r += 1;
            }
            // ledger: everything the destination held before is dropped exactly once, nothing of the source
            let gone_d = [true; NM];
            let gone_s = [false; NM];
            vassert!(ledger_rows(&dbefore, &dm, ncols, &gone_d), "every replaced destination value dropped exactly once");
            vassert!(ledger_rows(&sbefore, &dm, ncols, &gone_s), "no source value dropped by clone_from()");
            // the destination's new ledger cells are fresh values, not the source's
            let mut k = 0;
            while k < MAXC {
                if k < ncols && dm[k] {
                    let mut r = 0;
                    while r < NS {
                        vassert!(d.rows[r][k] != sbefore.rows[r][k], "cloned cells are independent values");
                        vassert!(ledger(d_id_of_fp(d.rows[r][k])) == 0, "cloned cells are alive");
                        r += 1;
                    }
                }
                k += 1;
            }
            drop(src);
            let d2 = snap::<$R, NM>(&dst, &bits);
            let mut r = 0;
            while r < NS {
                vassert!(rows_eq(&d2.rows[r], &d.rows[r], ncols), "destination intact after the source is dropped");
                r += 1;
            }
            drop(dst);
            vassert!(ledger_all_once(), "every value (both sides, old and new) dropped exactly once");
            kani::cover!(true, "reached end");
        }
    };
}

// destination longer / equal / shorter than the source; capacity sufficient and insufficient
clone_from_step!(clonefrom_q_azd_d2_s1, RAZD, [true, true, true], dst = 2, dcap = 2, src = 1);
clone_from_step!(clonefrom_q_azd_d1_s2_grow, RAZD, [true, true, true], dst = 1, dcap = 1, src = 2);
clone_from_step!(clonefrom_t_dbwa_d2_s2, RDBWA, [true, true, true, true], dst = 2, dcap = 3, src = 2);
clone_from_step!(clonefrom_t_azd_d2_s0, RAZD, [false, true, true], dst = 2, dcap = 2, src = 0);
clone_from_step!(clonefrom_t_azd_d0_s2, RAZD, [true, false, true], dst = 0, dcap = 0, src = 2);
clone_from_step!(clonefrom_t_dbwa_d3_s1, RDBWA, [true, true, false, false], dst = 3, dcap = 4, src = 1);

// ------------------------------------------------------------------------------------------
// component_eq (C16)
// ------------------------------------------------------------------------------------------

macro_rules! eq_step {
    ($name:ident, $R:ty, [$($b:expr),*], na = $NA:expr, nb = $NB:expr) => {
        #[kani::proof]
        #[kani::unwind(18)]
        pub fn $name() {
            const NA: usize = $NA;
            const NB: usize = $NB;
            const NM: usize = if NA > NB { NA } else { NB };
            let bits = [$($b),*];
            let ncols = popcount(&bits);
            let mut dm = [false; MAXC];
            <$R as Cols>::dmask(&bits, &mut dm, 0);
            let aids = any_ids::<NA>();
            let bids = any_ids::<NB>();
            let a = any_archetype::<$R>(ident::<$R>(bits_to_bytes(&bits)), &bits, NA, NA, &aids);
            let b = any_archetype::<$R>(ident::<$R>(bits_to_bytes(&bits)), &bits, NB, NB + 1, &bids);
            let sa = snap::<$R, NM>(&a, &bits);
            let sb = snap::<$R, NM>(&b, &bits);
            let mut model = NA == NB;
            let mut r = 0;
            while r < NM {
                if r < NA && r < NB {
                    if sa.ids[r] != sb.ids[r] || !rows_eq_val(&sa.rows[r], &sb.rows[r], ncols, &dm) {
                        model = false;
                    }
                }
                r += 1;
            }
            // SAFETY: both archetypes have the same identifier bytes.
            let (ab, ba, aa) = unsafe { (a.component_eq(&b), b.component_eq(&a), a.component_eq(&a)) };
            vassert!(ab == model, "component_eq is exactly row-wise equality of identifiers and values");
            vassert!(ab == ba, "component_eq is symmetric");
            vassert!(aa, "component_eq is reflexive");
            kani::cover!(ab || NA != NB, "equal pair");
            kani::cover!(!ab, "unequal pair");
            kani::cover!(!ab && NA == NB && NA > 0 && sa.ids[0] == sb.ids[0] || NA != NB || NA == 0, "unequal by a value only");
            core::mem::forget(a);
            core::mem::forget(b);
        }
    };
}

eq_step!(eq_q_azd_2_2, RAZD, [true, true, true], na = 2, nb = 2);
eq_step!(eq_q_ab_1_2, RAB, [true, true], na = 1, nb = 2);
eq_step!(eq_q_azd_sparse_2_2, RAZD, [false, true, true], na = 2, nb = 2);
eq_step!(eq_t_dbwa_2_2, RDBWA, [true, true, true, true], na = 2, nb = 2);
eq_step!(eq_t_dbwa_sparse_3_3, RDBWA, [false, true, false, true], na = 3, nb = 3);
eq_step!(eq_t_empty_2_2, RAB, [false, false], na = 2, nb = 2);
