#!/usr/bin/env python3
"""Engine E3c: the World-level glue, checked compositionally over its MIR.

`World::{insert, extend, remove, clear}` and `Entry::{add, remove}` are thin sequences of calls into
the archetype table, one archetype and the allocator plus arithmetic on `World.len`.  Whole-world
harnesses do not fit in memory under Kani (DESIGN.md §5), so the glue is checked *assume-guarantee*:

  * every callee is replaced by its contract - the effect on three ghost counters
        rows   = number of stored rows over all archetypes
        active = number of active slots
        len    = the `len` field (real MIR arithmetic, with its overflow asserts)
    and a precondition.  Each contract is what the Kani harness group named next to it establishes
    for the real callee (rm_, allocf_, push_, ext_, clear_, shape_, allocm_).
  * the MIR of the glue function (dumped from /repo's current source with the nightly toolchain) is
    executed symbolically path by path; every callee precondition, every overflow assert and the
    post-condition become z3 obligations (cross-checked with cvc5):

        pre   rows == active == len                      (C13 at World level)
        post  rows' == active' == len'  and  len' == the specified new count
              (insert +1, extend +k, remove -[identifier was live], clear 0, Entry::add/remove +-0)

A glue mutant such as "len decremented on the wrong branch", "free_unchecked skipped", "len += 1
twice", "row popped but never pushed back" violates an obligation and is reported with the path.
Bounds: none on the counters (64-bit, arbitrary); the claim is relative to the callee contracts.
Output: JSON on stdout.
"""
import json
import os
import re
import subprocess
import sys
import time

import z3

sys.path.insert(0, os.path.dirname(os.path.abspath(__file__)))
from bitwalk import Unsupported, dump_mir, find_fn, parse_fn, split_top  # noqa: E402

BV = lambda name: z3.BitVec(name, 64)


class Glue:
    def __init__(self, blocks, len_place_re, contracts):
        self.blocks = blocks
        self.len_re = re.compile(len_place_re)
        self.contracts = contracts
        self.paths = []
        self.fresh = 0

    def fresh_bv(self, hint):
        self.fresh += 1
        return z3.BitVec("%s_%d" % (hint, self.fresh), 64)

    def val(self, st, o):
        o = o.strip()
        for pre in ("copy ", "move "):
            if o.startswith(pre):
                o = o[len(pre):]
                break
        if o.startswith("const "):
            m = re.match(r"const (\d+)_usize", o)
            if m:
                return z3.BitVecVal(int(m.group(1)), 64)
            if o in ("const true", "const false"):
                return z3.BoolVal(o == "const true")
            return ("abstract", o)
        if self.len_re.match(o):
            return st["len"]
        if re.match(r"^\(\(\*_2\)\.2: usize\)$", o) and "src_len" in st["flags"]:
            return st["flags"]["src_len"]
        m = re.match(r"^\((_\d+)\.(\d+): [^)]*\)$", o)
        if m and (m.group(1) + "." + m.group(2)) in st["env"]:
            return st["env"][m.group(1) + "." + m.group(2)]
        m = re.match(r"^\(\((_\d+) as Some\)\.0: .*\)$", o)
        if m:
            return ("payload", m.group(1))
        if o in st["env"]:
            return st["env"][o]
        return ("abstract", o)

    def run(self, st):
        self.explore("bb0", st, [])
        return self.paths

    def explore(self, bb, st, pc):
        for s in self.blocks[bb]:
            s = s.strip()
            if re.match(r"^(StorageLive|StorageDead|nop|FakeRead|PlaceMention|Retag)", s):
                continue
            if s.rstrip(";") == "return":
                self.paths.append((pc, st))
                return
            if s.rstrip(";") == "unreachable":
                st["obls"].append((list(pc), z3.BoolVal(False), "an `unreachable` terminator is not reachable"))
                return
            m = re.match(r"^goto -> (bb\d+);?$", s)
            if m:
                return self.explore(m.group(1), st, pc)
            m = re.match(r"^drop\(.*\) -> \[return: (bb\d+).*\];?$", s)
            if m:
                return self.explore(m.group(1), st, pc)
            m = re.match(r"^switchInt\((.*?)\) -> \[(.*)\];?$", s)
            if m:
                v = self.val(st, m.group(1))
                arms = [a.strip() for a in m.group(2).split(",")]
                taken = []
                for a in arms:
                    k, tgt = [x.strip() for x in a.split(":")]
                    if k == "otherwise":
                        cond = z3.And([z3.Not(c) for c, _ in taken]) if taken else z3.BoolVal(True)
                    elif z3.is_bool(v):
                        cond = v if k != "0" else z3.Not(v)
                    elif z3.is_bv(v):
                        cond = v == z3.BitVecVal(int(k), v.size())
                    else:
                        raise Unsupported("switchInt on " + str(v))
                    taken.append((cond, tgt))
                for cond, tgt in taken:
                    s2 = {"len": st["len"], "rows": st["rows"], "active": st["active"], "env": dict(st["env"]), "obls": list(st["obls"]), "calls": list(st["calls"]), "flags": dict(st["flags"])}
                    self.explore(tgt, s2, pc + [cond])
                return
            m = re.match(r"^assert\((!?)(.*?), \"(.*?)\".*\) -> \[success: (bb\d+).*\];?$", s)
            if m:
                c = self.val(st, m.group(2))
                if not z3.is_bool(c):
                    # overflow check of arithmetic outside the ghost model (bit positions): skipped
                    st["flags"]["skipped_asserts"] = st["flags"].get("skipped_asserts", 0) + 1
                    return self.explore(m.group(4), st, pc)
                if m.group(1):
                    c = z3.Not(c)
                st["obls"].append((list(pc), c, "no panic: " + m.group(3)[:50]))
                return self.explore(m.group(4), st, pc + [c])
            m = re.match(r"^(.*?) = (.*?)\((.*)\) -> \[return: (bb\d+).*\];?$", s)
            if m and not re.match(r"^(AddWithOverflow|SubWithOverflow|Add|Sub|discriminant)$", m.group(2).strip()):
                self.call(st, pc, m.group(1).strip(), m.group(2).strip(), split_top(m.group(3)))
                return self.explore(m.group(4), st, pc)
            m = re.match(r"^(.*?) = (.*?);?$", s)
            if m:
                self.assign(st, pc, m.group(1).strip(), m.group(2).strip().rstrip(";"))
                continue
            raise Unsupported("statement " + s)
        raise Unsupported("block %s has no terminator" % bb)

    def assign(self, st, pc, dst, rv):
        m = re.match(r"^(AddWithOverflow|SubWithOverflow)\((.*)\)$", rv)
        if m:
            a, b = [self.val(st, x) for x in split_top(m.group(2))]
            if not (z3.is_bv(a) and z3.is_bv(b)):
                # arithmetic on values the ghost model does not track (identifier bit positions):
                # abstract result; the accompanying assert is then skipped, not judged
                st["env"][dst + ".0"] = ("abstract", rv)
                st["env"][dst + ".1"] = ("abstract", rv)
                return
            if m.group(1) == "AddWithOverflow":
                st["env"][dst + ".0"] = a + b
                st["env"][dst + ".1"] = z3.Not(z3.BVAddNoOverflow(a, b, False))
            else:
                st["env"][dst + ".0"] = a - b
                st["env"][dst + ".1"] = z3.ULT(a, b)
            return
        m = re.match(r"^discriminant\((_\d+)\)$", rv)
        if m:
            v = st["env"].get(m.group(1))
            if isinstance(v, tuple) and v[0] == "option":
                st["env"][dst] = z3.If(v[1], z3.BitVecVal(1, 64), z3.BitVecVal(0, 64))
                return
            raise Unsupported("discriminant of " + str(v))
        if re.match(r"^[A-Z][A-Za-z]*\(.*\)$", rv) or " as " in rv:
            # any other operator / cast / aggregate: not part of the ghost model
            val = ("abstract", rv)
        elif rv.startswith("&"):
            val = ("ref", rv)
        else:
            val = self.val(st, rv)
        if self.len_re.match(dst):
            if not z3.is_bv(val):
                raise Unsupported("len assigned an abstract value: " + rv)
            st["len"] = val
        else:
            st["env"][dst] = val

    def call(self, st, pc, dst, callee, args):
        for pat, fn in self.contracts:
            if re.search(pat, callee):
                st["calls"].append(re.sub(r"::<.*", "", callee)[-60:])
                fn(self, st, pc, dst, [self.val(st, a) for a in args])
                return
        raise Unsupported("call without a contract: " + callee[:120])


def copy_state(st):
    return {"len": st["len"], "rows": st["rows"], "active": st["active"], "env": dict(st["env"]), "obls": list(st["obls"]), "calls": list(st["calls"]), "flags": dict(st["flags"])}


# ---- callee contracts (each names the Kani harness group that establishes it for the real code) ----

def c_pure(name):
    def f(g, st, pc, dst, args):
        st["env"][dst] = ("abstract", name)
    return f


def c_get(g, st, pc, dst, args):  # allocm_: get = model, no state change
    st["env"][dst] = ("option", st["flags"]["live"])


def c_contains(g, st, pc, dst, args):
    st["env"][dst] = st["flags"]["live"]


def c_remove_row(g, st, pc, dst, args):  # rm_: removes exactly the row, fixes the moved entity up
    st["obls"].append((list(pc), z3.And(st["flags"]["live"], z3.UGE(st["rows"], 1)), "remove_row_unchecked is only called for the row of a live identifier"))
    st["rows"] = st["rows"] - 1
    st["flags"]["row_removed"] = True


def c_free(g, st, pc, dst, args):  # allocf_: target dead afterwards, pushed to the free list once
    st["obls"].append((list(pc), z3.And(st["flags"]["live"], z3.UGE(st["active"], 1)), "free_unchecked is only called with a live identifier"))
    st["active"] = st["active"] - 1


def c_push(g, st, pc, dst, args):  # push_: one row, one identifier
    st["rows"] = st["rows"] + 1
    st["active"] = st["active"] + 1
    st["env"][dst] = ("abstract", "identifier")


def c_batch_len(g, st, pc, dst, args):
    st["env"][dst] = st["flags"]["k"]


def c_extend(g, st, pc, dst, args):  # ext_: k rows, k identifiers
    st["rows"] = st["rows"] + st["flags"]["k"]
    st["active"] = st["active"] + st["flags"]["k"]
    st["env"][dst] = ("abstract", "identifiers")


def c_clear(g, st, pc, dst, args):  # clear_: every row gone, every identifier freed once
    st["rows"] = z3.BitVecVal(0, 64)
    st["active"] = z3.BitVecVal(0, 64)


def c_pop_row(g, st, pc, dst, args):  # shape_: row leaves the source archetype, slot stays active
    st["obls"].append((list(pc), z3.UGE(st["rows"], 1), "pop_row_unchecked is only called on a stored row"))
    st["rows"] = st["rows"] - 1
    st["flags"]["in_flight"] = st["flags"].get("in_flight", 0) + 1
    st["env"][dst] = ("abstract", "(identifier, bytes)")


def c_push_from_buffer(g, st, pc, dst, args):  # shape_: the carried row lands in the target archetype
    st["obls"].append((list(pc), z3.BoolVal(st["flags"].get("in_flight", 0) == 1), "a row is pushed from the buffer only after exactly one row was popped"))
    st["rows"] = st["rows"] + 1
    st["flags"]["in_flight"] = st["flags"].get("in_flight", 0) - 1
    st["env"][dst] = ("abstract", "row index")


def c_modify_location(g, st, pc, dst, args):  # allocm_: whole location replaced (archetype and row)
    st["flags"]["location_update"] = "archetype and row"


def c_modify_location_index(g, st, pc, dst, args):  # allocm_: row replaced, archetype kept
    st["flags"]["location_update"] = "row only"


def c_get_unchecked_bit(g, st, pc, dst, args):
    st["env"][dst] = st["flags"]["has_component"]


def c_archetypes_clone_from(g, st, pc, dst, args):
    # NOT established by a Kani harness (table-level clone does not fit, DESIGN.md §5): stated contract
    # "the destination ends up with exactly the source's rows"; only the archetype-level half is checked
    st["rows"] = st["flags"]["src_len"]
    st["env"][dst] = ("abstract", "identifier map")


def c_allocator_clone_from(g, st, pc, dst, args):  # allocc_: slots, liveness and free list copied
    st["active"] = st["flags"]["src_len"]


WORLD_CONTRACTS = [
    (r"Archetypes::<\w+>::clone_from$", c_archetypes_clone_from),
    (r"allocator::Allocator::<\w+>::clone_from$", c_allocator_clone_from),
    (r"as core::clone::Clone>::clone_from$", c_pure("()")),
    (r"allocator::Allocator::<\w+>::get$", c_get),
    (r"Archetypes::<\w+>::get_unchecked_mut$", c_pure("archetype")),
    (r"Archetype::<\w+>::remove_row_unchecked$", c_remove_row),
    (r"allocator::Allocator::<\w+>::free_unchecked$", c_free),
    (r"::canonical$", c_pure("canonical entity")),
    (r"Archetypes::<\w+>::get_mut_or_insert_new_for_entity::", c_pure("archetype")),
    (r"Archetype::<\w+>::push::", c_push),
    (r"Batch::<.*>::len$", c_batch_len),
    (r"Batch::<.*>::new_unchecked$", c_pure("canonical batch")),
    (r"Archetype::<\w+>::extend::", c_extend),
    (r"Archetypes::<\w+>::clear$", c_clear),
]

ENTRY_CONTRACTS = [
    (r"IdentifierRef::<\w+>::get_unchecked$", c_get_unchecked_bit),
    (r"Archetypes::<\w+>::get_unchecked_mut$", c_pure("archetype")),
    (r"Archetype::<\w+>::set_component_unchecked::", c_pure("()")),
    (r"Archetype::<\w+>::pop_row_unchecked$", c_pop_row),
    (r"IdentifierRef::<\w+>::as_vec$", c_pure("bytes")),
    (r"get_unchecked_mut", c_pure("byte")),
    (r"Identifier::<\w+>::new$", c_pure("identifier buffer")),
    (r"Archetypes::<\w+>::get_mut_or_insert_new$", c_pure("archetype")),
    (r"Archetype::<\w+>::push_from_buffer_and_component::", c_push_from_buffer),
    (r"Archetype::<\w+>::push_from_buffer_skipping_component::", c_push_from_buffer),
    (r"Vec::<u8>::as_ptr|as_ptr", c_pure("ptr")),
    (r"Archetype::<\w+>::identifier$", c_pure("identifier ref")),
    (r"Location::<\w+>::new$", c_pure("location")),
    (r"allocator::Allocator::<\w+>::modify_location_unchecked$", c_modify_location),
    (r"allocator::Allocator::<\w+>::modify_location_index_unchecked$", c_modify_location_index),
    (r"deref|Deref", c_pure("deref")),
]


def prove(name, assumptions, goal, results):
    s = z3.Solver()
    s.set("timeout", 30000)
    for a in assumptions:
        s.add(a)
    s.add(z3.Not(goal))
    t0 = time.time()
    r = s.check()
    dt = time.time() - t0
    p = subprocess.run(["cvc5", "--lang", "smt2", "--tlimit=30000"], input="(set-logic ALL)\n" + s.to_smt2(), stdout=subprocess.PIPE, stderr=subprocess.STDOUT, text=True)
    cv = p.stdout.strip().splitlines()[0] if p.stdout.strip() else "error"
    e = {"obligation": name, "z3": str(r), "cvc5": cv, "z3_s": round(dt, 3)}
    if r == z3.sat:
        m = s.model()
        e["model"] = {str(d): str(m[d]) for d in m.decls()}
    results.append(e)


def check_fn(mir, title, pattern, len_re, contracts, flags, post_len, results, samples, unchanged_len=False):
    text = find_fn(mir, pattern)
    _decls, blocks = parse_fn(text)
    n0 = BV("len0")
    st = {"len": n0, "rows": n0, "active": n0, "env": {}, "obls": [], "calls": [], "flags": dict(flags)}
    g = Glue(blocks, len_re, contracts)
    paths = g.run(st)
    pre = flags.get("pre", [])
    for i, (pc, fin) in enumerate(paths):
        tag = "%s path %d" % (title, i)
        samples.append({"function": title, "path": i, "calls": fin["calls"]})
        for opc, cond, label in fin["obls"]:
            prove("%s: %s" % (tag, label), pre + opc, cond, results)
        want = post_len(n0, fin["flags"])
        prove("%s: len' is the specified count" % tag, pre + pc, fin["len"] == want, results)
        prove("%s: stored rows == active slots == len afterwards" % tag, pre + pc, z3.And(fin["rows"] == fin["len"], fin["active"] == fin["len"]), results)
        if "in_flight" in fin["flags"]:
            prove("%s: no row is left in flight" % tag, pre + pc, z3.BoolVal(fin["flags"]["in_flight"] == 0), results)
            # the entity moved to another archetype: its slot must be pointed at (new archetype, new row)
            prove("%s: the moved entity's location is replaced as a whole (archetype and row)" % tag, pre + pc,
                  z3.BoolVal(fin["flags"].get("location_update") == "archetype and row"), results)
    prove("%s: some path applies to every pre-state" % title, pre, z3.Or([z3.And(pc) if pc else z3.BoolVal(True) for pc, _ in paths]), results)
    return len(paths)


def main():
    repo = sys.argv[1] if len(sys.argv) > 1 else "/repo"
    res = {"engine": "E3c-glue", "obligations": 0, "discharged": 0, "violations": [], "inconclusive": [], "samples": [],
           "functions": ["World::insert", "World::extend", "World::remove", "World::clear", "World::clone_from", "Entry::add", "Entry::remove"],
           "bounds": "64-bit counters, arbitrary values; relative to the callee contracts (each established by a Kani harness group)",
           "cross_checked": "z3 and cvc5 agree on every obligation"}
    t0 = time.time()
    results = []
    try:
        mir = dump_mir(repo)
        live = z3.Bool("live")
        k = BV("k")
        has = z3.Bool("has_component")
        WLEN = r"^\(\(\*_1\)\.2: usize\)$"
        # headroom so that the real overflow asserts are about the glue, not about 2^64 entities
        room = lambda n: [z3.ULT(n, z3.BitVecVal(2 ** 62, 64))]
        n0 = BV("len0")
        check_fn(mir, "World::insert", r"^fn world::<impl at src/world/mod\.rs[^>]*>::insert\(", WLEN, WORLD_CONTRACTS,
                 {"live": live, "k": k, "pre": room(n0)}, lambda n, f: n + 1, results, res["samples"])
        check_fn(mir, "World::extend", r"^fn world::<impl at src/world/mod\.rs[^>]*>::extend\(", WLEN, WORLD_CONTRACTS,
                 {"live": live, "k": k, "pre": room(n0) + room(k)}, lambda n, f: n + k, results, res["samples"])
        # a live identifier implies at least one stored entity
        check_fn(mir, "World::remove", r"^fn world::<impl at src/world/mod\.rs[^>]*>::remove\(", WLEN, WORLD_CONTRACTS,
                 {"live": live, "k": k, "pre": room(n0) + [z3.Implies(live, z3.UGE(n0, 1))]}, lambda n, f: n - z3.If(live, z3.BitVecVal(1, 64), z3.BitVecVal(0, 64)), results, res["samples"])
        check_fn(mir, "World::clear", r"^fn world::<impl at src/world/mod\.rs[^>]*>::clear\(", WLEN, WORLD_CONTRACTS,
                 {"live": live, "k": k, "pre": room(n0)}, lambda n, f: z3.BitVecVal(0, 64), results, res["samples"])
        # clone_from: the destination takes the source's count (source satisfies rows == active == len)
        m0 = BV("src_len0")
        check_fn(mir, "World::clone_from", r"^fn world::impl_clone::<impl at src/world/impl_clone\.rs[^>]*>::clone_from\(", WLEN, WORLD_CONTRACTS,
                 {"live": live, "k": k, "src_len": m0, "pre": room(n0) + room(m0)}, lambda n, f: m0, results, res["samples"])
        # Entry: `len` is not touched at all; rows and active must come out unchanged.  An Entry exists only
        # for a stored entity, hence rows >= 1.
        ELEN = r"^\(\(\*\(\(\*_1\)\.0: &mut World<[^)]*\)\)\.2: usize\)$"
        for name in ("add", "remove"):
            check_fn(mir, "Entry::" + name, r"^fn entry::<impl at src/world/entry\.rs[^>]*>::%s\(" % name, ELEN, ENTRY_CONTRACTS,
                     {"live": z3.BoolVal(True), "k": k, "has_component": has, "pre": room(n0) + [z3.UGE(n0, 1)]}, lambda n, f: n, results, res["samples"])
        for e in results:
            res["obligations"] += 1
            if e["z3"] == "unsat" and e["cvc5"] == "unsat":
                res["discharged"] += 1
            elif e["z3"] == "sat" and e["cvc5"] == "sat":
                res["violations"].append({"what": "World glue obligation fails: " + e["obligation"], "model": e.get("model", {}), "kind": "glue"})
            else:
                res["inconclusive"].append("%s: z3=%s cvc5=%s" % (e["obligation"], e["z3"], e["cvc5"]))
        res["samples"] = res["samples"] + results[:30]
        res["solver_s"] = round(sum(e["z3_s"] for e in results), 3)
    except Unsupported as ex:
        res["inconclusive"].append("MIR construct outside the translator: %s" % ex)
    res["wall_s"] = round(time.time() - t0, 2)
    json.dump(res, sys.stdout, indent=1)


if __name__ == "__main__":
    main()
