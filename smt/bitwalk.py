#!/usr/bin/env python3
"""Engine E3b: the archetype-identifier bit walkers as SMT, for a *symbolic* registry length.

Kani can only instantiate a registry of a concrete length.  The three kernels every query, filter,
view and storage walker is built on are loop-free integer code:

    archetype::identifier::Iter::<R>::new          (iter.rs)
    <archetype::identifier::Iter<R> as Iterator>::next
    archetype::IdentifierRef::<R>::get_unchecked   (mod.rs)

Their MIR is dumped from /repo's current source with the nightly toolchain (R::LEN appears as the
symbolic constant `const <R as Length>::LEN`) and translated block by block into bit-vector terms
(usize -> BV64, u8 -> BV8, overflow `assert`s and every load become proof obligations, the identifier
buffer is an SMT array of (LEN + 7) / 8 bytes).  Obligations, for every LEN < 2^32:

  new:   the only load is at offset 0 and only happens when LEN > 0; the state satisfies Inv.
  next:  from any state satisfying Inv: no overflow, every load inside the buffer, returns None iff
         position >= LEN, otherwise Some(bit `position` of the buffer) and Inv holds again
         (one-step induction: the k-th call returns the k-th bit, for every k and every LEN).
  get_unchecked(i), i < LEN: the load is inside the buffer, the shift is < 8, returns bit i.

  Inv(ptr, cur, pos) :=  pos <= LEN
                      /\\ (pos <  LEN -> ptr = pos / 8 /\\ cur = buf[ptr] >> (pos % 8))
                      /\\ (pos == LEN -> true)

z3 decides; every query is re-checked with cvc5 on the SMT-LIB2 export.  The translator is validated
on each run by pushing the repository's own unit-test vectors (identifier::iter::tests) through the
encoding.  Output: JSON on stdout.
"""
import json
import os
import re
import shutil
import subprocess
import sys
import tempfile
import time

import z3

BV64 = z3.BitVecSort(64)


class Unsupported(Exception):
    pass


def dump_mir(repo):
    scratch = tempfile.mkdtemp(prefix="brood-mir-")
    try:
        w = os.path.join(scratch, "w")
        subprocess.check_call(["rsync", "-a", "--exclude", "/target", "--exclude", "/.git", repo + "/", w + "/"])
        env = dict(os.environ)
        env["CARGO_NET_OFFLINE"] = "true"
        env.pop("RUSTFLAGS", None)
        p = subprocess.run(
            ["cargo", "+nightly", "rustc", "--offline", "--lib", "--no-default-features", "--", "-Zunpretty=mir",
             "-C", "debug-assertions=off", "-C", "overflow-checks=on"],
            cwd=w, env=env, stdout=subprocess.PIPE, stderr=subprocess.PIPE, text=True)
        if "fn " not in p.stdout:
            raise Unsupported("MIR dump failed: " + p.stderr[-500:])
        return p.stdout
    finally:
        shutil.rmtree(scratch, ignore_errors=True)


def find_fn(mir, pattern):
    m = re.search(pattern, mir, re.M)
    if not m:
        raise Unsupported("function not found in MIR: " + pattern)
    start = m.start()
    end = mir.index("\n}\n", start)
    return mir[start:end + 3]


def parse_fn(text):
    decls = dict((m.group(1), m.group(2)) for m in re.finditer(r"let (?:mut )?(_\d+): ([^;]+);", text))
    for m in re.finditer(r"(_\d+): ([^,)]+)[,)]", text.split("{", 1)[0]):
        decls[m.group(1)] = m.group(2).strip()
    blocks = {}
    for m in re.finditer(r"\n    (bb\d+): \{\n(.*?)\n    \}", text, re.S):
        stmts = [s.strip() for s in m.group(2).split("\n") if s.strip()]
        blocks[m.group(1)] = stmts
    return decls, blocks


def width_of(ty):
    ty = ty.strip()
    return {"usize": 64, "u8": 8, "u32": 32, "i32": 32, "u64": 64}.get(ty)


class Sym:
    """Symbolic executor for the loop-free MIR subset used by the kernels."""

    def __init__(self, decls, blocks, LEN, buf, nbytes):
        self.decls, self.blocks, self.LEN, self.buf, self.nbytes = decls, blocks, LEN, buf, nbytes
        self.paths = []

    def const(self, tok):
        tok = tok.strip()
        if "Length>::LEN" in tok:
            return self.LEN
        m = re.match(r"(\d+)_(usize|u8|u32|i32|u64)$", tok)
        if m:
            return z3.BitVecVal(int(m.group(1)), width_of(m.group(2)))
        if tok in ("true", "false"):
            return z3.BoolVal(tok == "true")
        raise Unsupported("constant " + tok)

    def place(self, p):
        p = p.strip()
        p = re.sub(r"^\((.*): [^()]+\)$", r"\1", p) if re.match(r"^\(.*: [^()]+\)$", p) and not p.startswith("(*") else p
        return p

    def read(self, env, obls, pc, p):
        p = p.strip()
        m = re.match(r"^\(\((\*_\d+)\)\.(\d+): [^)]+\)$", p)
        if m:
            return env["(%s).%s" % (m.group(1), m.group(2))]
        m = re.match(r"^\((_\d+)\.(\d+): [^)]+\)$", p)
        if m:
            return env["%s.%s" % (m.group(1), m.group(2))]
        m = re.match(r"^\(\*(_\d+)\)$", p)
        if m:
            ptr = env[m.group(1)]
            if isinstance(ptr, tuple) and ptr[0] == "ref":
                return env[ptr[1]]
            obls.append((list(pc), z3.ULT(ptr, self.nbytes), "load through %s inside the identifier buffer" % m.group(1)))
            return z3.Select(self.buf, ptr)
        if re.match(r"^_\d+$", p):
            return env[p]
        raise Unsupported("place " + p)

    def write(self, env, p, val):
        p = p.strip()
        m = re.match(r"^\(\((\*_\d+)\)\.(\d+): [^)]+\)$", p)
        if m:
            env["(%s).%s" % (m.group(1), m.group(2))] = val
            return
        if re.match(r"^_\d+$", p):
            env[p] = val
            return
        raise Unsupported("write to " + p)

    def operand(self, env, obls, pc, o):
        o = o.strip()
        if o.startswith("copy ") or o.startswith("move "):
            return self.read(env, obls, pc, o[5:])
        if o.startswith("no_retag copy "):
            return self.read(env, obls, pc, o[len("no_retag copy "):])
        if o.startswith("const "):
            return self.const(o[6:])
        raise Unsupported("operand " + o)

    def fit(self, a, b):
        if z3.is_bv(a) and z3.is_bv(b) and a.size() != b.size():
            if b.size() < a.size():
                b = z3.ZeroExt(a.size() - b.size(), b)
            else:
                b = z3.Extract(a.size() - 1, 0, b)
        return a, b

    def rvalue(self, env, obls, pc, dst, rv):
        rv = rv.strip()
        m = re.match(r"^(Ge|Gt|Lt|Le|Eq|Ne|BitAnd|Rem|Div|Shr|Add|Sub|AddWithOverflow|SubWithOverflow)\((.*)\)$", rv)
        if m:
            op = m.group(1)
            a_s, b_s = split_args(m.group(2))
            a = self.operand(env, obls, pc, a_s)
            b = self.operand(env, obls, pc, b_s)
            a, b = self.fit(a, b)
            if op == "Ge":
                return z3.UGE(a, b)
            if op == "Gt":
                return z3.UGT(a, b)
            if op == "Lt":
                return z3.ULT(a, b)
            if op == "Le":
                return z3.ULE(a, b)
            if op == "Eq":
                return a == b
            if op == "Ne":
                return a != b
            if op == "BitAnd":
                return a & b
            if op == "Rem":
                return z3.URem(a, b)
            if op == "Div":
                return z3.UDiv(a, b)
            if op == "Shr":
                return z3.LShR(a, b)
            if op == "Add":
                return a + b
            if op == "Sub":
                return a - b
            if op == "AddWithOverflow":
                env[dst + ".0"] = a + b
                env[dst + ".1"] = z3.Not(z3.BVAddNoOverflow(a, b, False))
                return None
            if op == "SubWithOverflow":
                env[dst + ".0"] = a - b
                env[dst + ".1"] = z3.ULT(a, b)
                return None
        m = re.match(r"^(.*) as (u32|usize|u8|u64) \(IntToInt\)$", rv)
        if m:
            a = self.operand(env, obls, pc, m.group(1))
            w = width_of(m.group(2))
            return z3.ZeroExt(w - a.size(), a) if a.size() < w else z3.Extract(w - 1, 0, a)
        if rv == "Option::<bool>::None":
            return ("none",)
        m = re.match(r"^Option::<bool>::Some\((.*)\)$", rv)
        if m:
            return ("some", self.operand(env, obls, pc, m.group(1)))
        m = re.match(r"^archetype::identifier::iter::Iter::<R> \{(.*)\}$", rv)
        if m:
            fields = dict((k.strip(), v.strip()) for k, v in (f.split(":", 1) for f in split_top(m.group(1))))
            return ("iter", self.operand(env, obls, pc, fields["pointer"]), self.operand(env, obls, pc, fields["current"]), self.operand(env, obls, pc, fields["position"]))
        m = re.match(r"^&(?:mut )?(.*)$", rv)
        if m:
            return ("ref", self.place_key(m.group(1)))
        return self.operand(env, obls, pc, rv)

    def place_key(self, p):
        p = p.strip()
        m = re.match(r"^\(\((\*_\d+)\)\.(\d+): [^)]+\)$", p)
        if m:
            return "(%s).%s" % (m.group(1), m.group(2))
        return p

    def call(self, env, obls, pc, dst, callee, args):
        if callee.startswith("core::ptr::const_ptr::<impl *const u8>::add"):
            p = self.operand(env, obls, pc, args[0])
            n = self.operand(env, obls, pc, args[1])
            # ptr::add safety contract: the result stays within (or one past) the allocation
            obls.append((list(pc), z3.ULE(p + n, self.nbytes), "ptr::add stays within one past the identifier buffer"))
            env[dst] = p + n
        elif "IdentifierRef::<R>::as_slice" in callee:
            env[dst] = ("slice", z3.BitVecVal(0, 64), self.nbytes)
        elif callee.startswith("core::slice::<impl [u8]>::get_unchecked::<usize>"):
            s = self.operand(env, obls, pc, args[0])
            i = self.operand(env, obls, pc, args[1])
            obls.append((list(pc), z3.ULT(i, s[2]), "slice::get_unchecked index inside the identifier buffer"))
            env[dst] = ("byteref", s[1] + i)
        elif callee.startswith("<&u8 as Shr<usize>>::shr"):
            r = self.operand(env, obls, pc, args[0])
            n = self.operand(env, obls, pc, args[1])
            obls.append((list(pc), z3.ULT(n, z3.BitVecVal(8, 64)), "shift amount below the width of u8"))
            env[dst] = z3.LShR(z3.Select(self.buf, r[1]), z3.Extract(7, 0, n))
        else:
            raise Unsupported("call to " + callee)

    def run(self, env):
        self.explore("bb0", dict(env), [], [])
        return self.paths

    def explore(self, bb, env, pc, obls):
        stmts = self.blocks[bb]
        for s in stmts:
            s = s.rstrip(";") if not s.endswith("];") else s
            if s.startswith("StorageLive") or s.startswith("StorageDead") or s.startswith("nop") or s.startswith("FakeRead") or s.startswith("PlaceMention"):
                continue
            m = re.match(r"^goto -> (bb\d+)$", s)
            if m:
                return self.explore(m.group(1), env, pc, obls)
            if s == "return":
                self.paths.append((pc, obls, env))
                return
            m = re.match(r"^switchInt\((.*)\) -> \[0: (bb\d+), otherwise: (bb\d+)\];?$", s)
            if m:
                c = self.operand(env, obls, pc, m.group(1))
                self.explore(m.group(2), dict(env), pc + [z3.Not(c)], list(obls))
                self.explore(m.group(3), dict(env), pc + [c], list(obls))
                return
            m = re.match(r"^assert\((!?)(.*?), \"(.*?)\".*\) -> \[success: (bb\d+), unwind continue\];?$", s)
            if m:
                c = self.operand(env, obls, pc, m.group(2))
                if m.group(1):
                    c = z3.Not(c)
                obls.append((list(pc), c, "no panic: " + m.group(3)[:60]))
                pc = pc + [c]
                return self.explore(m.group(4), env, pc, obls)
            m = re.match(r"^(_\d+) = (.*?)\((.*)\) -> \[return: (bb\d+), unwind continue\];?$", s)
            if m and not re.match(r"^(Ge|Gt|Lt|Le|Eq|Ne|BitAnd|Rem|Div|Shr|Add|Sub|AddWithOverflow|SubWithOverflow|Option::<bool>::Some)$", m.group(2)):
                self.call(env, obls, pc, m.group(1), m.group(2), split_top(m.group(3)))
                return self.explore(m.group(4), env, pc, obls)
            m = re.match(r"^(.*?) = (.*)$", s)
            if m:
                dst = m.group(1).strip()
                val = self.rvalue(env, obls, pc, dst, m.group(2))
                if val is not None:
                    self.write(env, dst, val)
                continue
            raise Unsupported("statement " + s)
        raise Unsupported("block %s has no terminator" % bb)


def split_top(s):
    out, depth, cur = [], 0, ""
    for ch in s:
        if ch in "(<[{":
            depth += 1
        elif ch in ")>]}":
            depth -= 1
        if ch == "," and depth == 0:
            out.append(cur)
            cur = ""
        else:
            cur += ch
    if cur.strip():
        out.append(cur)
    return out


def split_args(s):
    parts = split_top(s)
    if len(parts) != 2:
        raise Unsupported("binary operands " + s)
    return parts


def prove(name, assumptions, goal, results):
    """Valid iff assumptions /\\ not goal is unsat; z3 verdict cross-checked with cvc5."""
    s = z3.Solver()
    s.set("timeout", 60000)
    for a in assumptions:
        s.add(a)
    s.add(z3.Not(goal))
    t0 = time.time()
    r = s.check()
    dt = time.time() - t0
    smt2 = "(set-logic ALL)\n" + s.to_smt2()
    p = subprocess.run(["cvc5", "--lang", "smt2", "--tlimit=60000"], input=smt2, stdout=subprocess.PIPE, stderr=subprocess.STDOUT, text=True)
    cv = p.stdout.strip().splitlines()[0] if p.stdout.strip() else "error"
    entry = {"obligation": name, "z3": str(r), "cvc5": cv, "z3_s": round(dt, 3)}
    if r == z3.sat:
        m = s.model()
        entry["model"] = {str(d): str(m[d]) for d in m.decls() if str(d) in ("LEN", "pos", "ptr", "cur", "idx")}
        # smallest registry length among those with a concrete companion harness that still fails
        LENv = z3.BitVec("LEN", 64)
        for n in (0, 1, 2, 3, 4, 8, 9, 16):
            s.push()
            s.add(LENv == n)
            if s.check() == z3.sat:
                entry["small_len"] = n
                s.pop()
                break
            s.pop()
    results.append(entry)
    return entry


def bit_of(buf, i):
    return z3.Extract(0, 0, z3.LShR(z3.Select(buf, z3.UDiv(i, z3.BitVecVal(8, 64))), z3.Extract(7, 0, z3.URem(i, z3.BitVecVal(8, 64))))) == z3.BitVecVal(1, 1)


def main():
    repo = sys.argv[1] if len(sys.argv) > 1 else "/repo"
    res = {"engine": "E3b-bitwalk", "obligations": 0, "discharged": 0, "violations": [], "inconclusive": [], "samples": [],
           "functions": ["archetype::identifier::Iter::<R>::new", "<archetype::identifier::Iter<R> as Iterator>::next", "archetype::IdentifierRef::<R>::get_unchecked"],
           "bounds": "every registry length LEN < 2^32 (symbolic), arbitrary buffer contents, arbitrary position", "cross_checked": "z3 and cvc5 agree on every obligation"}
    t0 = time.time()
    try:
        mir = dump_mir(repo)
        LEN = z3.BitVec("LEN", 64)
        buf = z3.Array("buf", BV64, z3.BitVecSort(8))
        nbytes = z3.UDiv(LEN + 7, z3.BitVecVal(8, 64))
        base = [z3.ULT(LEN, z3.BitVecVal(2 ** 32, 64))]
        results = []

        # ---- Iter::new ----
        decls, blocks = parse_fn(find_fn(mir, r"^fn archetype::identifier::iter::<impl at src/archetype/identifier/iter\.rs[^>]*>::new\("))
        sym = Sym(decls, blocks, LEN, buf, nbytes)
        paths_new = sym.run({"_1": z3.BitVecVal(0, 64)})

        def inv(ptr, cur, pos):
            return z3.And(z3.ULE(pos, LEN), z3.Implies(z3.ULT(pos, LEN), z3.And(ptr == z3.UDiv(pos, z3.BitVecVal(8, 64)), cur == z3.LShR(z3.Select(buf, ptr), z3.Extract(7, 0, z3.URem(pos, z3.BitVecVal(8, 64)))))))

        for pc, obls, env in paths_new:
            for opc, cond, label in obls:
                prove("new: " + label, base + opc, cond, results)
            it = env["_0"]
            prove("new: initial state satisfies Inv", base + pc, inv(it[1], it[2], it[3]), results)
            prove("new: position starts at 0", base + pc, it[3] == z3.BitVecVal(0, 64), results)

        # ---- Iter::next ----
        decls, blocks = parse_fn(find_fn(mir, r"^fn archetype::identifier::iter::<impl at src/archetype/identifier/iter\.rs[^>]*>::next\("))
        ptr, cur, pos = z3.BitVec("ptr", 64), z3.BitVec("cur", 8), z3.BitVec("pos", 64)
        sym = Sym(decls, blocks, LEN, buf, nbytes)
        paths_next = sym.run({"(*_1).1": ptr, "(*_1).2": cur, "(*_1).3": pos})
        pre = base + [inv(ptr, cur, pos)]
        for pc, obls, env in paths_next:
            for opc, cond, label in obls:
                prove("next: " + label, pre + opc, cond, results)
            ret = env["_0"]
            if ret[0] == "none":
                prove("next: returns None only at the end", pre + pc, z3.UGE(pos, LEN), results)
                prove("next: state unchanged at the end", pre + pc, z3.And(env["(*_1).3"] == pos, env["(*_1).1"] == ptr), results)
            else:
                prove("next: returns Some only before the end", pre + pc, z3.ULT(pos, LEN), results)
                prove("next: returned bit is bit `position` of the identifier", pre + pc, ret[1] == bit_of(buf, pos), results)
                prove("next: position advances by one", pre + pc, env["(*_1).3"] == pos + 1, results)
                prove("next: Inv re-established", pre + pc, inv(env["(*_1).1"], env["(*_1).2"], env["(*_1).3"]), results)
        # totality: the path conditions cover the whole pre-state space
        prove("next: some path applies to every state", pre, z3.Or([z3.And(pc) if pc else z3.BoolVal(True) for pc, _, _ in paths_next]), results)

        # ---- IdentifierRef::get_unchecked ----
        decls, blocks = parse_fn(find_fn(mir, r"^fn archetype::identifier::<impl at src/archetype/identifier/mod\.rs[^>]*>::get_unchecked\(_1: IdentifierRef<R>, _2: usize\)"))
        idx = z3.BitVec("idx", 64)
        sym = Sym(decls, blocks, LEN, buf, nbytes)
        paths_get = sym.run({"_1": ("identref",), "_2": idx})
        preg = base + [z3.ULT(idx, LEN)]
        for pc, obls, env in paths_get:
            for opc, cond, label in obls:
                prove("get_unchecked: " + label, preg + opc, cond, results)
            prove("get_unchecked: returns bit `index` of the identifier", preg + pc, env["_0"] == bit_of(buf, idx), results)

        for e in results:
            res["obligations"] += 1
            if e["z3"] == "unsat" and e["cvc5"] == "unsat":
                res["discharged"] += 1
            elif e["z3"] == "sat" and e["cvc5"] in ("sat",):
                v = {"what": "bit walker obligation fails: " + e["obligation"], "model": e.get("model", {}), "kind": "bitwalk"}
                # for the native replay, re-solve for a registry length that has a Kani companion harness
                small = e.get("small_len")
                if small is not None:
                    v["replay_harness"] = "bitwalk_q_len%d" % small
                    v["replay_len"] = small
                res["violations"].append(v)
            else:
                res["inconclusive"].append("%s: z3=%s cvc5=%s" % (e["obligation"], e["z3"], e["cvc5"]))
        res["samples"] = results[:40]
        res["solver_s"] = round(sum(e["z3_s"] for e in results), 3)

        # ---- translator validation with the repository's own unit-test vectors ----
        src = open(os.path.join(repo, "src/archetype/identifier/iter.rs")).read()
        vectors = []
        for m in re.finditer(r"Identifier::<Registry>::new\(vec!\[([^\]]*)\]\).*?collect::<Vec<bool>>\(\),\s*vec!\[([^\]]*)\]", src, re.S):
            bytes_s, exp_s = m.group(1), m.group(2)
            if ";" in bytes_s:
                v, n = bytes_s.split(";")
                data = [int(v)] * int(n)
            else:
                data = [int(x) for x in bytes_s.replace("\n", " ").split(",") if x.strip()]
            if ";" in exp_s:
                v, n = exp_s.split(";")
                exp = [v.strip() == "true"] * int(n)
            else:
                exp = [x.strip() == "true" for x in exp_s.replace("\n", " ").split(",") if x.strip()]
            vectors.append((data, exp))
        checked = 0
        for data, exp in vectors:
            n = len(exp)
            if (n + 7) // 8 != len(data):
                continue  # vector for another registry length than its buffer suggests
            cbuf = z3.K(BV64, z3.BitVecVal(0, 8))
            for i, b in enumerate(data):
                cbuf = z3.Store(cbuf, z3.BitVecVal(i, 64), z3.BitVecVal(b, 8))
            subst = [(LEN, z3.BitVecVal(n, 64)), (buf, cbuf)]
            # run the encoding: new, then n+1 times next
            state = None
            for pc, obls, env in paths_new:
                if z3.is_true(z3.simplify(z3.substitute(z3.And(pc) if pc else z3.BoolVal(True), subst))):
                    it = env["_0"]
                    state = [z3.simplify(z3.substitute(x, subst)) for x in it[1:]]
            got = []
            for k in range(n + 1):
                s2 = subst + [(ptr, state[0]), (cur, state[1]), (pos, state[2])]
                for pc, obls, env in paths_next:
                    if z3.is_true(z3.simplify(z3.substitute(z3.And(pc) if pc else z3.BoolVal(True), s2))):
                        ret = env["_0"]
                        if ret[0] == "none":
                            got.append(None)
                        else:
                            got.append(z3.is_true(z3.simplify(z3.substitute(ret[1], s2))))
                        state = [z3.simplify(z3.substitute(env[f], s2)) for f in ("(*_1).1", "(*_1).2", "(*_1).3")]
                        break
            checked += 1
            if got != exp + [None]:
                res["inconclusive"].append("translator validation failed on the repository's test vector %s: encoding yields %s" % (data, got))
        res["translator_validation"] = "%d unit-test vectors of identifier::iter::tests replayed through the encoding" % checked
        if checked == 0:
            res["inconclusive"].append("no unit-test vector could be extracted for translator validation")
    except Unsupported as e:
        res["inconclusive"].append("MIR construct outside the translator: %s" % e)
    res["wall_s"] = round(time.time() - t0, 2)
    json.dump(res, sys.stdout, indent=1)


if __name__ == "__main__":
    main()
