#!/usr/bin/env python3
"""Engine E3a: the schedule's static conflict decision as SMT.

The compile-time staging of brood's schedules is decided by trait impls whose only content is a
table: (kind of the task's view, kind of the view already claimed on the same component) -> `Cut`
(start a new stage) or "ask the tail".  This script re-extracts those tables from /repo's current
source on every run (verifier.rs, merger.rs, inverse.rs, claim/mod.rs), emits them as functions over
finite sorts, and asks z3 (cross-checked with cvc5) for

  * a row that cuts although the two accesses do not conflict      (C12: spurious serialisation)
  * a row that defers although the two accesses conflict           (C08: missing cut)
  * a missing row / two rows for the same key with different verdicts
  * list level (bounded): for view lists of length <= 3 over <= 3 components, the fold of the rows
    (first Cut wins, Null -> Append) equals "some view conflicts with the claim on its component"
  * Merger = disjunction of its two inputs; Check/Claims = "Cut as soon as one claim list cuts".

Reference relation: two accesses to one component conflict iff both touch it and one of them writes.
Output: JSON on stdout (obligations, discharged, violations with the offending row, samples).
"""
import json
import re
import subprocess
import sys
import tempfile
import time

VK = ["imm", "mut", "oimm", "omut", "id"]  # kind of the task's view (head of V)
CK = ["absent", "imm", "mut", "oimm", "omut"]  # kind already claimed on that component in C


def norm(s):
    s = re.sub(r"//[^\n]*", "", s)
    return re.sub(r"\s+", " ", s)


def kind_of(ty):
    ty = ty.replace("'a ", "").replace(" ", "")
    return {
        "&T": "imm",
        "&mutT": "mut",
        "Option<&T>": "oimm",
        "Option<&mutT>": "omut",
        "entity::Identifier": "id",
    }.get(ty)


def parse_verifier(src):
    rows = []  # (vk, ck or '*', decision, marker)
    problems = []
    text = norm(src)
    for m in re.finditer(r"impl<([^>]*(?:<[^>]*>)?[^>]*)> Verifier<'a, R, C, ([^>]*?), (\([A-Za-z]+, P\)|P|Null)> for (\(.*?, U\)|view::Null) (where (.*?))?\{ type Decision = (.*?); \}", text):
        head = m.group(4)
        marker = m.group(3)
        where = m.group(6) or ""
        decision = m.group(7).strip()
        if head == "view::Null":
            rows.append(("null", "*", "append" if decision.endswith("Append") else "cut", "Null"))
            continue
        vty = head[1:-len(", U)")]
        vk = kind_of(vty)
        if vk is None:
            problems.append("unrecognised view type in impl head: %s" % head)
            continue
        dec = "cut" if decision == "decision::Cut" else ("tail" if "as Verifier" in decision else ("stop" if decision == "decision::Append" else "?"))
        if dec == "?":
            problems.append("unrecognised decision: %s" % decision)
        if vk == "id":
            rows.append((vk, "*", dec, marker))
            continue
        g = re.search(r"C: Get<(.*?), I>", where)
        if g:
            ck = kind_of(g.group(1))
        elif re.search(r"R: Get<T, I>", where):
            ck = "absent"
        else:
            ck = None
        if ck is None:
            problems.append("cannot tell the claimed kind from where-clause: %s" % where)
            continue
        rows.append((vk, ck, dec, marker))
    return rows, problems


def parse_merge_norm(src):
    """view::Merge normalises the kinds a task's views (Left) and entry views (Right) contribute to
    the merged view list the Verifier works on.  Returns {side: {kind: merged kind}} and, for
    components viewed on both sides, {(left kind, right kind): merged kind}."""
    text = norm(src).replace("Component", "T")
    sides = {"Left": {}, "Right": {}}
    both = {}
    for chunk in text.split("impl<")[1:]:
        merged = re.search(r"type Merged = \( ([^()]*?), <", chunk)
        if not merged:
            continue
        mk = kind_of(merged.group(1))
        m = re.search(r"Merge<\(([^()]*?), Views\), OtherViews, \(Left, Containments\)>", chunk)
        if m:
            sides["Left"][kind_of(m.group(1))] = mk
            continue
        m = re.search(r"Merge<Views, \(([^()]*?), OtherViews\), \(Right, Containments\)>", chunk)
        if m:
            sides["Right"][kind_of(m.group(1))] = mk
            continue
        m = re.search(r"Merge<\(([^()]*?), Views\), \(([^()]*?), OtherViews\), \(Both, Containments\)>", chunk)
        if m:
            both[(kind_of(m.group(1)), kind_of(m.group(2)))] = mk
    return sides, both


def parse_merger(src):
    text = norm(src)
    rows = {}
    for m in re.finditer(r"impl Merger for \((Cut|Append), (Cut|Append)\) \{ type Decision = (Cut|Append); \}", text):
        rows[(m.group(1), m.group(2))] = m.group(3)
    return rows


def parse_inverse(src):
    text = norm(src)
    kinds = set()
    for m in re.finditer(r"Inverse<R, [^>]*?> for \((.*?), U\)", text):
        k = kind_of(m.group(1).replace("&T", "&T"))
        kinds.add(k)
    removes = len(re.findall(r"R: Get<T, I>, U: Inverse<<R as Get<T, I>>::Remainder, IS>", text))
    return kinds, removes


def parse_check(src):
    text = norm(src)
    cut_stops = bool(re.search(r"impl<V, R, T> Check<'_, decision::Cut, V, Null, Null, R, Null> for T \{ type Decision = decision::Cut; \}", text))
    append_continues = bool(re.search(r"Check<'a, decision::Append, V, I, P, R, RI> for \(C, T\) where T: Claims<'a, V, I, P, R, RI>, \{ type Decision = <T as Claims<'a, V, I, P, R, RI>>::Decision; \}", text))
    null_appends = bool(re.search(r"Claims<'_, V, Null, Null, R, Null> for Null \{ type Decision = decision::Append; \}", text))
    return cut_stops, append_continues, null_appends


def smt_prelude(rows, left_norm):
    lines = ["(set-logic ALL)"]
    lines.append("(declare-datatypes ((VK 0)) (((imm) (mut) (oimm) (omut) (idv))))")
    lines.append("(declare-datatypes ((CK 0)) (((absent) (cimm) (cmut) (coimm) (comut))))")
    # cut: new stage; tail: ask the remaining views; stop: answer Append without looking further
    lines.append("(declare-datatypes ((Dec 0)) (((cut) (tail) (stop) (missing))))")
    vname = {"imm": "imm", "mut": "mut", "oimm": "oimm", "omut": "omut", "id": "idv"}
    cname = {"absent": "absent", "imm": "cimm", "mut": "cmut", "oimm": "coimm", "omut": "comut"}
    body = "missing"
    for vk, ck, dec, _ in reversed(rows):
        if vk == "null":
            continue
        if ck == "*":
            cond = "(= v %s)" % vname[vk]
        else:
            cond = "(and (= v %s) (= c %s))" % (vname[vk], cname[ck])
        body = "(ite %s %s %s)" % (cond, dec, body)
    lines.append("(define-fun rawdec ((v VK) (c CK)) Dec %s)" % body)
    # view::Merge normalisation of the task's (and the claimed tasks') views, extracted from merge.rs
    vn = "v"
    for k, nk in left_norm.items():
        if k in vname and nk in vname:
            vn = "(ite (= v %s) %s %s)" % (vname[k], vname[nk], vn)
    lines.append("(define-fun vnorm ((v VK)) VK %s)" % vn)
    cn = "c"
    for k, nk in left_norm.items():
        if k in cname and nk in cname:
            cn = "(ite (= c %s) %s %s)" % (cname[k], cname[nk], cn)
    lines.append("(define-fun cnorm ((c CK)) CK %s)" % cn)
    lines.append("(define-fun dec ((v VK) (c CK)) Dec (rawdec (vnorm v) (cnorm c)))")
    lines.append("(define-fun vwrites ((v VK)) Bool (or (= v mut) (= v omut)))")
    lines.append("(define-fun cwrites ((c CK)) Bool (or (= c cmut) (= c comut)))")
    lines.append("(define-fun conflict ((v VK) (c CK)) Bool (and (not (= v idv)) (not (= c absent)) (or (vwrites v) (cwrites c))))")
    return lines, vname, cname


def run_solver(cmd, text):
    t0 = time.time()
    p = subprocess.run(cmd, input=text, stdout=subprocess.PIPE, stderr=subprocess.STDOUT, text=True)
    return p.stdout, time.time() - t0


def check_queries(prelude, queries):
    """queries: list of (name, assertions, get_values). Returns per-query verdicts from z3 and cvc5."""
    text = "\n".join(prelude) + "\n"
    for name, asserts, values in queries:
        text += "(push)\n" + "\n".join("(assert %s)" % a for a in asserts) + "\n(check-sat)\n"
        text += "(echo \"--\")\n(pop)\n"
    out_z3, tz = run_solver(["z3", "-in"], text)
    out_cv, tc = run_solver(["cvc5", "--lang", "smt2", "--incremental"], text)

    def verdicts(out):
        if "(error" in out:
            return None
        return [l.strip() for l in out.splitlines() if l.strip() in ("sat", "unsat", "unknown")]

    return verdicts(out_z3), verdicts(out_cv), tz + tc, text


def model_for(prelude, asserts, values):
    text = "\n".join(prelude) + "\n" + "\n".join("(assert %s)" % a for a in asserts) + "\n(check-sat)\n(get-value (%s))\n" % " ".join(values)
    out, _ = run_solver(["z3", "-in"], text)
    return out


def main():
    repo = sys.argv[1] if len(sys.argv) > 1 else "/repo"
    base = repo + "/src/system/schedule/claim/"
    res = {"engine": "E3a-tables", "obligations": 0, "discharged": 0, "violations": [], "inconclusive": [], "samples": [], "functions": [
        "system::schedule::claim::verifier::Verifier (impl table)", "system::schedule::claim::merger::Merger (impl table)",
        "system::schedule::claim::inverse::Inverse (impl table)", "system::schedule::claim::{Claims, Check} (fold)"],
        "bounds": "tables: exhaustive over 5 view kinds x 5 claimed kinds; list level: view lists <= 3 over <= 3 components", "cross_checked": "z3 and cvc5 agree on every query"}
    t0 = time.time()
    rows, problems = parse_verifier(open(base + "verifier.rs").read())
    merger = parse_merger(open(base + "merger.rs").read())
    inv_kinds, inv_removes = parse_inverse(open(base + "inverse.rs").read())
    cut_stops, append_continues, null_appends = parse_check(open(base + "mod.rs").read())
    for p in problems:
        res["inconclusive"].append(p)
    res["samples"].append({"extracted_verifier_rows": ["%s x %s -> %s [%s]" % r for r in rows]})
    res["samples"].append({"extracted_merger_rows": ["(%s, %s) -> %s" % (k[0], k[1], v) for k, v in sorted(merger.items())]})

    # duplicates with different verdicts
    seen = {}
    for vk, ck, dec, marker in rows:
        key = (vk, ck)
        if key in seen and seen[key] != dec:
            res["violations"].append({"what": "two Verifier impls for (%s, %s) with different decisions" % key, "row": list(key), "kind": "ambiguous"})
        seen[key] = dec

    sides, both = parse_merge_norm(open(repo + "/src/query/view/merge.rs").read())
    res["samples"].append({"extracted_merge_normalisation": {k: v for k, v in sides.items()}, "both_sides": sorted("%s+%s -> %s" % (a, b, c) for (a, b), c in both.items())})
    if sides["Left"] != sides["Right"] or set(sides["Left"]) != {"imm", "mut", "oimm", "omut", "id"}:
        res["inconclusive"].append("view::Merge normalisation could not be extracted consistently: %s" % sides)
    prelude, vname, cname = smt_prelude(rows, sides["Left"])
    # the normalisation itself must preserve the access mode (read stays read, write stays write)
    for side in ("Left", "Right"):
        for k, nk in sides[side].items():
            res["obligations"] += 1
            w = lambda x: x in ("mut", "omut")
            if (k == "id") == (nk == "id") and w(k) == w(nk):
                res["discharged"] += 1
            else:
                res["violations"].append({"what": "view::Merge (%s) turns a %s view into a %s view: the access mode the scheduler sees differs from the access the task gets" % (side, k, nk), "kind": "merge", "model": {"v": k, "c": "c" + ("mut" if w(k) else "imm")}})
    for (a, b), c in both.items():
        if a is None or b is None or c is None:
            res["inconclusive"].append("unrecognised kind in a Both-sided Merge impl: %s+%s -> %s" % (a, b, c))
            continue
        res["obligations"] += 1
        w = lambda x: x in ("mut", "omut")
        if (c == "id") == (a == "id") and w(c) == (w(a) or w(b)):
            res["discharged"] += 1
        else:
            res["violations"].append({"what": "view::Merge (Both) of %s and %s gives %s" % (a, b, c), "kind": "merge"})
    # rows that the normalisation makes unreachable are reported, not judged
    reach_v = set(sides["Left"].values())
    dead = ["%s x %s" % (vk, ck) for vk, ck, _, _ in rows if vk not in ("null",) and (vk not in reach_v or (ck not in ("absent", "*") and ck not in reach_v))]
    res["samples"].append({"verifier_rows_unreachable_after_merge_normalisation": dead})
    queries = []
    queries.append(("no missing row", ["(not (= v idv))", "(= (dec v c) missing)"], ["v", "c"]))  # over effective (normalised) rows
    queries.append(("identifier view never cuts", ["(= v idv)", "(not (= (dec v c) tail))"], ["v", "c"]))
    queries.append(("no row stops the walk early", ["(= (dec v c) stop)"], ["v", "c"]))
    queries.append(("no spurious cut (C12)", ["(= (dec v c) cut)", "(not (conflict v c))"], ["v", "c"]))
    queries.append(("no missing cut (C08)", ["(= (dec v c) tail)", "(conflict v c)"], ["v", "c"]))
    decls = ["(declare-const v VK)", "(declare-const c CK)"]

    # list level: V = 3 views (kind, component in 0..2, present flag), C = claim per component
    lst = []
    for i in range(3):
        lst += ["(declare-const k%d VK)" % i, "(declare-const t%d Int)" % i, "(declare-const p%d Bool)" % i]
    for j in range(3):
        lst.append("(declare-const claim%d CK)" % j)
    lst.append("(define-fun claim_of ((t Int)) CK (ite (= t 0) claim0 (ite (= t 1) claim1 claim2)))")
    # fold: first Cut wins; views not present are skipped; Null -> Append (=tail here)
    lst.append("(define-fun step ((p Bool) (k VK) (t Int) (rest Dec)) Dec (ite (not p) rest (ite (= (dec k (claim_of t)) tail) rest (dec k (claim_of t)))))")
    lst.append("(define-fun fold () Dec (step p0 k0 t0 (step p1 k1 t1 (step p2 k2 t2 tail))))")
    lst.append("(define-fun anyconf () Bool (or (and p0 (conflict k0 (claim_of t0))) (and p1 (conflict k1 (claim_of t1))) (and p2 (conflict k2 (claim_of t2)))))")
    wf = ["(and (<= 0 t0 2) (<= 0 t1 2) (<= 0 t2 2))",
          # a component is viewed at most once per view list (enforced by the type system elsewhere)
          "(=> (and p0 p1 (not (= k0 idv)) (not (= k1 idv))) (not (= t0 t1)))",
          "(=> (and p0 p2 (not (= k0 idv)) (not (= k2 idv))) (not (= t0 t2)))",
          "(=> (and p1 p2 (not (= k1 idv)) (not (= k2 idv))) (not (= t1 t2)))"]
    queries.append(("list fold cuts only on conflict", wf + ["(= fold cut)", "(not anyconf)"], []))
    queries.append(("list fold cuts on every conflict", wf + ["(not (= fold cut))", "anyconf"], []))

    full_prelude = prelude + decls + lst
    vz, vc, solver_s, text = check_queries(full_prelude, queries)
    res["solver_s"] = round(solver_s, 3)
    if vz is None or vc is None or len(vz) != len(queries) or len(vc) != len(queries):
        res["inconclusive"].append("solver error or missing answers (z3=%s cvc5=%s)" % (vz, vc))
    else:
        for (name, asserts, values), a, b in zip(queries, vz, vc):
            res["obligations"] += 1
            if a != b:
                res["inconclusive"].append("solvers disagree on '%s': z3=%s cvc5=%s" % (name, a, b))
            elif a == "unsat":
                res["discharged"] += 1
            elif a == "sat":
                m = model_for(full_prelude, asserts, values or ["k0", "t0", "p0", "k1", "t1", "p1", "k2", "t2", "p2", "claim0", "claim1", "claim2"])
                row = re.findall(r"\((\w+) (\w+)\)", m)
                res["violations"].append({"what": "table query '%s' has a counterexample" % name, "model": dict(row), "kind": name})
            else:
                res["inconclusive"].append("'%s': %s" % (name, a))

    # merger = disjunction, all four rows
    for a in ("Cut", "Append"):
        for b in ("Cut", "Append"):
            res["obligations"] += 1
            want = "Cut" if "Cut" in (a, b) else "Append"
            got = merger.get((a, b))
            if got == want:
                res["discharged"] += 1
            else:
                res["violations"].append({"what": "Merger(%s, %s) = %s, expected %s" % (a, b, got, want), "kind": "merger"})
    # inverse removes the viewed component for all four component view kinds and skips the identifier
    res["obligations"] += 1
    if inv_kinds >= {"imm", "mut", "oimm", "omut", "id"} and inv_removes == 4:
        res["discharged"] += 1
    else:
        res["violations"].append({"what": "Inverse does not remove the viewed component for every view kind (kinds=%s, removing impls=%d)" % (sorted(k for k in inv_kinds if k), inv_removes), "kind": "inverse"})
    # Check/Claims fold
    res["obligations"] += 1
    if cut_stops and append_continues and null_appends:
        res["discharged"] += 1
    else:
        res["violations"].append({"what": "Claims/Check fold is not 'Cut as soon as one claim list cuts, Append at the end' (cut_stops=%s append_continues=%s null_appends=%s)" % (cut_stops, append_continues, null_appends), "kind": "fold"})
    res["wall_s"] = round(time.time() - t0, 2)
    json.dump(res, sys.stdout, indent=1)


if __name__ == "__main__":
    main()
