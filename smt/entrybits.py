#!/usr/bin/env python3
"""Engine E3d: the component-set arithmetic of Entry::add / Entry::remove, for a symbolic registry.

When an entity changes shape, `Entry::add` / `Entry::remove` copy the identifier bytes of its current
archetype and set / clear ONE bit: `bytes[i / 8] |= 1 << (i % 8)` resp. `^=`, where
`i = R::LEN - R::INDEX - 1`.  Whole-world harnesses of these functions do not fit under Kani
(DESIGN.md §5), and engine E3c abstracts the bit arithmetic away.  This engine executes exactly that
arithmetic on the functions' MIR (nightly dump, overflow checks on) with a symbolic registry length
`LEN < 2^32`, a symbolic `INDEX < LEN` and symbolic identifier bytes, every other callee abstracted:

  add   (component absent):  the new identifier = the old one with bit i set, every other bit equal
  add   (component present): no new identifier is built (the value is overwritten in place)
  remove (component present): the new identifier = the old one with bit i cleared, every other bit equal
  remove (component absent):  nothing happens
  and: the byte index is inside the identifier buffer, no shift/arith overflow.

`IdentifierRef::get_unchecked` is replaced by its E3b-proven meaning (bit i of the buffer).
z3 decides, cvc5 cross-checks.  Output: JSON on stdout.
"""
import json
import os
import re
import sys
import time

import z3

sys.path.insert(0, os.path.dirname(os.path.abspath(__file__)))
from bitwalk import BV64, Sym, Unsupported, bit_of, dump_mir, find_fn, parse_fn, prove, split_top  # noqa: E402


class EntrySym(Sym):
    def __init__(self, decls, blocks, LEN, INDEX, buf, nbytes):
        super().__init__(decls, blocks, LEN, buf, nbytes)
        self.INDEX = INDEX

    def const(self, tok):
        tok = tok.strip()
        if "::INDEX" in tok:
            return self.INDEX
        if tok.startswith("ZeroSized") or tok in ("true", "false"):
            return z3.BoolVal(tok == "true") if tok in ("true", "false") else ("abstract", tok)
        try:
            return super().const(tok)
        except Unsupported:
            return ("abstract", tok)

    def read(self, env, obls, pc, p):
        p = p.strip()
        m = re.match(r"^\(\*(_\d+)\)$", p)
        if m and isinstance(env.get(m.group(1)), tuple) and env[m.group(1)][0] == "newbyte":
            return z3.Select(env["$new"], env[m.group(1)][1])
        try:
            return super().read(env, obls, pc, p)
        except (Unsupported, KeyError):
            return ("abstract", p)

    def write(self, env, p, val):
        p = p.strip()
        m = re.match(r"^\(\*(_\d+)\)$", p)
        if m and isinstance(env.get(m.group(1)), tuple) and env[m.group(1)][0] == "newbyte":
            if not z3.is_bv(val):
                raise Unsupported("identifier byte assigned an abstract value")
            env["$new"] = z3.Store(env["$new"], env[m.group(1)][1], val)
            return
        try:
            super().write(env, p, val)
        except Unsupported:
            env[p] = val

    def operand(self, env, obls, pc, o):
        try:
            return super().operand(env, obls, pc, o)
        except (Unsupported, KeyError):
            return ("abstract", o)

    def rvalue(self, env, obls, pc, dst, rv):
        rv = rv.strip()
        m = re.match(r"^(Shl|BitXor|BitOr|Not)\((.*)\)$", rv)
        if m:
            args = [self.operand(env, obls, pc, a) for a in split_top(m.group(2))]
            if not all(z3.is_bv(a) for a in args):
                return ("abstract", rv)
            if m.group(1) == "Not":
                return ~args[0]
            a, b = self.fit(args[0], args[1])
            return {"Shl": a << b, "BitXor": a ^ b, "BitOr": a | b}[m.group(1)]
        m = re.match(r"^(Ge|Gt|Lt|Le|Eq|Ne|BitAnd|Rem|Div|Shr|Add|Sub|AddWithOverflow|SubWithOverflow)\((.*)\)$", rv)
        if m:
            args = [self.operand(env, obls, pc, a) for a in split_top(m.group(2))]
            if not all(z3.is_bv(a) or z3.is_bool(a) for a in args):
                if m.group(1).endswith("WithOverflow"):
                    env[dst + ".0"] = ("abstract", rv)
                    env[dst + ".1"] = ("abstract", rv)
                    return None
                return ("abstract", rv)
        try:
            return super().rvalue(env, obls, pc, dst, rv)
        except (Unsupported, KeyError):
            return ("abstract", rv)

    def call(self, env, obls, pc, dst, callee, args):
        a = [self.operand(env, obls, pc, x) for x in args]
        if "IdentifierRef::<" in callee and callee.endswith("get_unchecked"):
            # E3b: returns bit `index` of the identifier
            env[dst] = bit_of(self.buf, a[1])
            env["$tested_index"] = a[1]
        elif "IdentifierRef::<" in callee and callee.endswith("as_vec"):
            env["$new"] = self.buf  # a copy of the current identifier's bytes
            env[dst] = ("newvec",)
        elif "DerefMut>::deref_mut" in callee:
            env[dst] = ("newslice",)
        elif "get_unchecked_mut::<usize>" in callee and isinstance(a[0], tuple) and a[0][0] == "newslice":
            obls.append((list(pc), z3.ULT(a[1], self.nbytes), "byte index inside the identifier buffer"))
            env[dst] = ("newbyte", a[1])
        elif "identifier::Identifier::<" in callee and callee.endswith("::new"):
            env["$built"] = env["$new"]
            env[dst] = ("abstract", "identifier buffer")
        else:
            env[dst] = ("abstract", callee[-40:])

    def explore(self, bb, env, pc, obls):
        # drop / cleanup edges and abstract asserts are tolerated here
        stmts = self.blocks[bb]
        patched = []
        for s in stmts:
            m = re.match(r"^drop\(.*\) -> \[return: (bb\d+).*\];?$", s.strip())
            if m:
                patched.append("goto -> %s;" % m.group(1))
                continue
            m = re.match(r"^assert\((!?)(.*?), \"(.*?)\".*\) -> \[success: (bb\d+).*\];?$", s.strip())
            if m:
                c = self.operand(env, obls, pc, m.group(2))
                if not z3.is_bool(c):
                    patched.append("goto -> %s;" % m.group(4))
                    continue
                patched.append(re.sub(r"unwind: bb\d+", "unwind continue", s.strip()))
                continue
            patched.append(re.sub(r"unwind: bb\d+", "unwind continue", s.strip()))
        saved = self.blocks[bb]
        self.blocks[bb] = patched
        try:
            return super().explore(bb, env, pc, obls)
        finally:
            self.blocks[bb] = saved


def main():
    repo = sys.argv[1] if len(sys.argv) > 1 else "/repo"
    res = {"engine": "E3d-entrybits", "obligations": 0, "discharged": 0, "violations": [], "inconclusive": [], "samples": [],
           "functions": ["world::Entry::add (component-set arithmetic)", "world::Entry::remove (component-set arithmetic)"],
           "bounds": "every registry length LEN < 2^32 and component position (symbolic), arbitrary identifier bytes; all other callees abstracted",
           "cross_checked": "z3 and cvc5 agree on every obligation"}
    t0 = time.time()
    results = []
    try:
        mir = dump_mir(repo)
        LEN = z3.BitVec("LEN", 64)
        INDEX = z3.BitVec("INDEX", 64)
        buf = z3.Array("buf", BV64, z3.BitVecSort(8))
        nbytes = z3.UDiv(LEN + 7, z3.BitVecVal(8, 64))
        base = [z3.ULT(LEN, z3.BitVecVal(2 ** 32, 64)), z3.ULT(INDEX, LEN)]
        i = LEN - INDEX - 1
        j = z3.BitVec("j", 64)
        for name, expect_set in (("add", True), ("remove", False)):
            decls, blocks = parse_fn(find_fn(mir, r"^fn entry::<impl at src/world/entry\.rs[^>]*>::%s\(" % name))
            sym = EntrySym(decls, blocks, LEN, INDEX, buf, nbytes)
            paths = sym.run({"_1": ("abstract", "self"), "_2": ("abstract", "component") if name == "add" else ("abstract", "unused")})
            built_paths = 0
            for k, (pc, obls, env) in enumerate(paths):
                tag = "Entry::%s path %d" % (name, k)
                for opc, cond, label in obls:
                    prove("%s: %s" % (tag, label), base + opc, cond, results)
                if "$tested_index" in env:
                    prove("%s: the tested bit is the component's own position" % tag, base + pc, env["$tested_index"] == i, results)
                if "$built" in env:
                    built_paths += 1
                    new = env["$built"]
                    had = bit_of(buf, i)
                    prove("%s: a new identifier is built only when the component set really changes" % tag, base + pc, had == z3.BoolVal(not expect_set), results)
                    prove("%s: bit of the component is %s in the new identifier" % (tag, "set" if expect_set else "clear"), base + pc,
                          bit_of(new, i) == z3.BoolVal(expect_set), results)
                    prove("%s: every other bit of the identifier is unchanged" % tag, base + pc + [z3.ULT(j, LEN), j != i],
                          bit_of(new, j) == bit_of(buf, j), results)
                    # bytes beyond the bit in question are untouched (padding stays clear)
                    prove("%s: every other byte of the identifier is unchanged" % tag, base + pc + [z3.ULT(j, nbytes), j != z3.UDiv(i, z3.BitVecVal(8, 64))],
                          z3.Select(new, j) == z3.Select(buf, j), results)
                res["samples"].append({"function": "Entry::" + name, "path": k, "builds_new_identifier": "$built" in env})
            if built_paths != 1:
                res["inconclusive"].append("Entry::%s: expected exactly one path that builds a new identifier, found %d" % (name, built_paths))
        for e in results:
            res["obligations"] += 1
            if e["z3"] == "unsat" and e["cvc5"] == "unsat":
                res["discharged"] += 1
            elif e["z3"] == "sat" and e["cvc5"] == "sat":
                v = {"what": "component-set arithmetic obligation fails: " + e["obligation"], "model": e.get("model", {}), "small_len": e.get("small_len"), "kind": "entrybits"}
                res["violations"].append(v)
            else:
                res["inconclusive"].append("%s: z3=%s cvc5=%s" % (e["obligation"], e["z3"], e["cvc5"]))
        res["samples"] += results[:24]
        res["solver_s"] = round(sum(e["z3_s"] for e in results), 3)
    except Unsupported as ex:
        res["inconclusive"].append("MIR construct outside the translator: %s" % ex)
    res["wall_s"] = round(time.time() - t0, 2)
    json.dump(res, sys.stdout, indent=1)


if __name__ == "__main__":
    main()
